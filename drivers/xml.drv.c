/* Driver TU for the backend-independent import code of /repo/hwloc/topology-xml.c (C06): the verified text is the real file.
 * The XML backend (nolibxml or libxml2) is replaced by the CONTRACT of the state API of include/private/xml.h, in executable form:
 *   next_attr     -1, or 0 with a name from a pool that contains every attribute name the function under verification
 *                 compares against plus an unknown one, and a value that is an ARBITRARY NUL-terminated string (<= XV chars,
 *                 exact-size allocation); at most XA attributes per element
 *   find_child    -1 / 0 / 1 with a tag from a pool (known tags + an unknown one); at most XC children
 *   get_content   -1, or 0 / 1 with an ARBITRARY NUL-terminated string (<= XB chars, exact-size allocation) -- the declared
 *                 length is NOT guaranteed to equal strlen (the libxml backend and hostile input do not guarantee it)
 *   close_tag     0 or -1;  close_child / close_content: no effect visible to the common code
 * i.e. the common code is verified for ANY sequence of attributes, children and contents a backend may deliver.
 * Other dependencies: strtoul family stubs (any value, end anywhere; the nbobjs attribute is the job constant XNBOBJS), atoi -> any int, getenv -> NULL, hwloc_type_sscanf
 * contract stub, hwloc_internal_distances_add_by_index contract stub (checks that the arrays it receives have nbobjs and
 * nbobjs*nbobjs readable entries and takes ownership). */
#include "verif_prelude.h"
#include <stdio.h>
#ifndef XA
#define XA 5
#endif
#ifndef XA2
#define XA2 2      /* attributes per child element */
#endif
#ifndef XC
#define XC 3
#endif
#ifndef XV
#define XV 2
#endif
#ifndef XB
#define XB 3
#endif
#ifndef XNUM
#define XNUM 7
#endif
/* number parser: end pointer anywhere inside the string, value arbitrary -- except for the attribute the harness marks as the
 * element's object count (verif_num_is_count): that one is the constant XNBOBJS of the job, so that the arrays sized from it
 * have a concrete size (a malloc of symbolic size times a symbolic store index exhausts the SAT solver's memory) */
#ifndef XNBOBJS
#define XNBOBJS 2
#endif
int verif_num_is_count;
unsigned long strtoul(const char *nptr, char **endptr, int base)
{
  size_t len = strlen(nptr), k = nondet_size_t();
  (void)base;
  __CPROVER_assume(k <= len);
  if (endptr) *endptr = (char *)nptr + k;
  if (verif_num_is_count) return XNBOBJS;
#ifdef XNUM_MAX
  { unsigned long v = nondet_ulong(); __CPROVER_assume(v <= XNUM_MAX); return v; }
#else
  return nondet_ulong();
#endif
}
unsigned long long strtoull(const char *nptr, char **endptr, int base) { return strtoul(nptr, endptr, base); }
int atoi(const char *s) { (void)s[0]; return nondet_int(); }
char *getenv(const char *name) { (void)name; return (char *)0; }
/* sprintf model for the one call of hwloc__xml_import_userdata ("base64%c%s" / "normal%c%s"): 6 + 1 + strlen(last argument) characters and the NUL */
#include <stdarg.h>
int sprintf(char *dst, const char *fmt, ...)
{
  va_list ap; int c; const char *tail; size_t n, i;
  va_start(ap, fmt); c = va_arg(ap, int); tail = va_arg(ap, const char *); va_end(ap);
  (void)c; (void)fmt[0];
  n = 7 + strlen(tail);
  for (i = 0; i < 12; i++) if (i < n) dst[i] = 'x';
  dst[n] = 0;
  return (int)n;
}
/* allocation accounting for the import code (leak obligations): every malloc / strdup / free of topology-xml.c goes through
 * these counting wrappers; the strings the backend stubs deliver are allocated before the macros exist and are not counted */
long verif_live_allocs;
static void *verif_counting_malloc(size_t n) { void *p = malloc(n); if (p) verif_live_allocs++; return p; }
static char *verif_counting_strdup(const char *s) { size_t n = strlen(s) + 1; char *p = malloc(n); if (p) { size_t i; for (i = 0; i < 16; i++) if (i < n) p[i] = s[i]; verif_live_allocs++; } return p; }
static void verif_counting_free(void *p) { if (p) verif_live_allocs--; free(p); }
#define malloc verif_counting_malloc
#define strdup verif_counting_strdup
#define free verif_counting_free
#include HWLOC_VERIF_SRC_XML
#undef malloc
#undef strdup
#undef free

int hwloc_type_sscanf(const char *string, hwloc_obj_type_t *typep, union hwloc_obj_attr_u *attrp, size_t attrsize)
{
  hwloc_obj_type_t type = (hwloc_obj_type_t)nondet_int();
  (void)string[0]; (void)attrp; (void)attrsize;
  if (nondet_bool()) return -1;
  __CPROVER_assume(type >= HWLOC_OBJ_TYPE_MIN && type < HWLOC_OBJ_TYPE_MAX);
  *typep = type;
  return 0;
}
unsigned verif_add_calls; const char *verif_add_name; unsigned verif_add_nbobjs; unsigned long verif_add_kind;
int hwloc_internal_distances_add_by_index(hwloc_topology_t topology, const char *name, hwloc_obj_type_t unique_type, hwloc_obj_type_t *different_types,
                                          unsigned nbobjs, uint64_t *indexes, uint64_t *values, unsigned long kind, unsigned long flags)
{
  (void)topology; (void)unique_type; (void)flags;
  __CPROVER_assert(nbobjs >= 2, "add_by_index: at least two objects");
  __CPROVER_assert(__CPROVER_r_ok(indexes, (size_t)nbobjs * sizeof(*indexes)), "add_by_index: nbobjs readable indexes");
  __CPROVER_assert(__CPROVER_r_ok(values, (size_t)nbobjs * nbobjs * sizeof(*values)), "add_by_index: nbobjs*nbobjs readable values");
  __CPROVER_assert(!different_types || __CPROVER_r_ok(different_types, (size_t)nbobjs * sizeof(*different_types)), "add_by_index: nbobjs readable types");
  if (name) (void)name[0];
  verif_add_calls++; verif_add_name = name; verif_add_nbobjs = nbobjs; verif_add_kind = kind;
  verif_counting_free(indexes); verif_counting_free(values); verif_counting_free(different_types);
  return 0;
}
/* base64.c is not part of this TU: contract of hwloc_decode_from_base64 (checked on the real function under C05/C06): reads the
 * NUL-terminated source, writes at most targsize bytes, returns -1 or a length <= targsize */
int hwloc_decode_from_base64(char const *src, char *target, size_t targsize)
{
  int r = nondet_int(); size_t k = nondet_size_t();
  (void)strlen(src);
  if (r < 0) return -1;
  __CPROVER_assume((size_t)r <= targsize);
  if (target && k < (size_t)r) target[k] = nondet_char();
  return r;
}
/* ownership model of the objects hwloc__xml_import_cpukind creates (bitmap.c / topology.c / cpukinds.c are not part of this TU):
 * a cpuset is live from alloc until it is freed or handed to hwloc_internal_cpukinds_register (which takes ownership);
 * an info list is released by hwloc__free_infos */
struct hwloc_bitmap_s { int live; };
unsigned verif_bm_allocs, verif_bm_released, verif_infos_freed, verif_register_calls;
hwloc_bitmap_t verif_last_bm; int verif_last_bm_live;      /* ghost copy of the last allocation's state (the jobs allocate at most one cpuset) */
hwloc_bitmap_t hwloc_bitmap_alloc(void) { struct hwloc_bitmap_s *b = malloc(sizeof(*b)); __CPROVER_assume(b != 0); b->live = 1; verif_bm_allocs++; verif_last_bm = b; verif_last_bm_live = 1; return b; }
void hwloc_bitmap_free(hwloc_bitmap_t b) { if (b) { __CPROVER_assert(b->live, "no double free of a cpuset"); b->live = 0; verif_bm_released++; if (b == verif_last_bm) verif_last_bm_live = 0; } }
int hwloc_bitmap_sscanf(hwloc_bitmap_t b, const char *string) { __CPROVER_assert(b->live, "cpuset used while allocated"); (void)strlen(string); return nondet_bool() ? 0 : -1; }
int hwloc__add_info(struct hwloc_infos_s *infos, const char *name, const char *value) { (void)name[0]; (void)value[0]; infos->count++; return 0; }
void hwloc__free_infos(struct hwloc_infos_s *infos) { (void)infos->count; verif_infos_freed++; }
int hwloc_internal_cpukinds_register(hwloc_topology_t topology, hwloc_cpuset_t cpuset, int forced_efficiency, const struct hwloc_infos_s *infos, unsigned long flags)
{
  (void)topology; (void)forced_efficiency; (void)infos->count; (void)flags;
  __CPROVER_assert(cpuset != 0 && cpuset->live, "register receives a live cpuset");
  cpuset->live = 0; verif_bm_released++; verif_register_calls++;      /* takes ownership */
  return nondet_bool() ? 0 : -1;
}
unsigned verif_setvalue_calls;
int hwloc_internal_memattr_set_value(hwloc_topology_t topology, hwloc_memattr_id_t id, hwloc_obj_type_t target_type, hwloc_uint64_t target_gp_index, unsigned target_os_index,
                                     struct hwloc_internal_location_s *initiator, hwloc_uint64_t value)
{
  (void)topology; (void)id; (void)target_gp_index; (void)target_os_index; (void)value;
  __CPROVER_assert(target_type >= HWLOC_OBJ_TYPE_MIN && target_type < HWLOC_OBJ_TYPE_MAX, "set_value receives a valid target type");
  if (initiator) {
    __CPROVER_assert(initiator->type == HWLOC_LOCATION_TYPE_CPUSET || initiator->type == HWLOC_LOCATION_TYPE_OBJECT, "set_value receives a typed initiator");
    if (initiator->type == HWLOC_LOCATION_TYPE_CPUSET) __CPROVER_assert(initiator->location.cpuset != 0 && initiator->location.cpuset == verif_last_bm && verif_last_bm_live, "initiator cpuset is the live cpuset just allocated (set_value copies it)");
    else __CPROVER_assert(initiator->location.object.type >= HWLOC_OBJ_TYPE_MIN && initiator->location.object.type < HWLOC_OBJ_TYPE_MAX, "initiator object type is valid");
  }
  verif_setvalue_calls++;
  return nondet_bool() ? 0 : -1;
}
#include "xml.harness.c"
