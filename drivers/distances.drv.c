/* Driver TU for /repo/hwloc/distances.c (C13): the verified text is the real file; plain harnesses on
 * explicit small states (matrices of <= NB objects, lists of <= ND structures). */
#include "verif_prelude.h"
#include "private/autogen/config.h"
#include "hwloc.h"
#include "private/private.h"
/* The object look-ups of refresh_one walk the topology tree (C01/C09, not claimed).  distances.c only needs
 * "a function of (type, index) that returns an object of this topology or NULL": the three look-ups are
 * redirected to one table-driven stub (distances.model.h).  The two helpers of hwloc/helper.h are static
 * inline, hence the #define; hwloc_get_obj_by_type_and_gp_index lives in topology.c and is given a body. */
#define hwloc_get_pu_obj_by_os_index verif_get_pu_obj_by_os_index
#define hwloc_get_numanode_obj_by_os_index verif_get_numanode_obj_by_os_index
#include "distances.model.h"
#include HWLOC_VERIF_SRC_DISTANCES
#include "distances.harness.c"
