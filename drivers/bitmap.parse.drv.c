/* Driver TU for the three bitmap parsers of /repo/hwloc/bitmap.c (C04): bounded stand-in, loops unwound. */
#include "verif_prelude.h"
#include "realloc.h"
#include "strtoul.h"
#define VERIF_NO_LOOP_CONTRACTS
#include "bitmap.loops.h"
#include HWLOC_VERIF_SRC_BITMAP
#include "bitmap.parse.harness.c"
