/* Driver TU for the string conversions of /repo/hwloc/bitmap.c (C04): the verified text is the real file.
 * Plain harnesses + loop contracts (goto-instrument --apply-loop-contracts), snprintf as contract stub. */
#include "verif_prelude.h"
#include <stdio.h>
#define PIECE_MAX 24          /* longest piece the printers produce: ",%d-%d" with two 10-digit ints is 22 chars */
#include "snprintf.h"
#include "traversal.arena.h"
#define VERIF_PRINTERS
#include "bitmap.loops.h"
#include HWLOC_VERIF_SRC_BITMAP
#include "bitmap.print.harness.c"
