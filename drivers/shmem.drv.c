/* Driver TU for /repo/hwloc/shmem.c (C19): the verified text is the real file; plain loop-free harnesses. */
#include "verif_prelude.h"
#include "private/autogen/config.h"
#include "hwloc.h"
#include "private/private.h"
#include "private/components.h"
#include <sys/mman.h>
#include <unistd.h>
#include "shmem.model.h"
#include HWLOC_VERIF_SRC_SHMEM
#include "shmem.harness.c"
