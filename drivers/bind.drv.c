/* Driver TU for /repo/hwloc/bind.c: the verified text is the real file. */
#include "verif_prelude.h"
#include "private/autogen/config.h"
#include "hwloc.h"
#include "private/private.h"
/* The inline locality helpers of hwloc/helper.h walk the object tree (C09, not claimed); bind.c only
 * needs their contract.  The two calls in bind.c are redirected to the contract stubs of bind.model.h. */
#define hwloc_cpuset_to_nodeset verif_cpuset_to_nodeset
#define hwloc_cpuset_from_nodeset verif_cpuset_from_nodeset
#include "bind.model.h"
#include HWLOC_VERIF_SRC_BIND
#include "bind.harness.c"
