/* Driver TU for /repo/hwloc/traversal.c: the verified text is the real file. */
#include "verif_prelude.h"
#include <stdio.h>
#include "snprintf.h"
#include <strings.h>
#include "strtoul.h"
#include "strncasecmp.h"
#include "traversal.arena.h"
#include "traversal.loops.h"
#include HWLOC_VERIF_SRC_TRAVERSAL
/* external to traversal.c (pci-common.c): only its result pointer is passed on to snprintf */
const char *hwloc_pci_class_string(unsigned short class_id) { static const char verif_class[] = "class"; (void)class_id; return verif_class; }
#include "traversal.harness.c"
