/* Driver TU for /repo/hwloc/traversal.c: the verified text is the real file. */
#include "verif_prelude.h"
#include <stdio.h>
#include "snprintf.h"
#include <strings.h>
#include "strtoul.h"
/* strncasecmp model (trusted, ASCII): the caller's "osdev[" / "os[" prefix tests rely on equality implying length */
int strncasecmp(const char *a, const char *b, size_t n)
{
  size_t i;
  for (i = 0; i < n; i++) {
    char x = a[i], y = b[i];
    if (x >= 'A' && x <= 'Z') x = (char)(x - 'A' + 'a');
    if (y >= 'A' && y <= 'Z') y = (char)(y - 'A' + 'a');
    if (x != y) return x < y ? -1 : 1;
    if (!x) return 0;
  }
  return 0;
}
#include "traversal.arena.h"
#include "traversal.loops.h"
#include HWLOC_VERIF_SRC_TRAVERSAL
/* external to traversal.c (pci-common.c): only its result pointer is passed on to snprintf */
const char *hwloc_pci_class_string(unsigned short class_id) { static const char verif_class[] = "class"; (void)class_id; return verif_class; }
#include "traversal.harness.c"
