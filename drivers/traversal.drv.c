/* Driver TU for /repo/hwloc/traversal.c: the verified text is the real file. */
#include "verif_prelude.h"
#include <stdio.h>
#include "snprintf.h"
#include "traversal.arena.h"
#include "traversal.loops.h"
#include HWLOC_VERIF_SRC_TRAVERSAL
#include "traversal.harness.c"
