/* Driver TU for /repo/hwloc/topology-synthetic.c (C07): the verified text is the real file.
 * Dependencies outside the file are contract stubs, stated here:
 *   getenv                    -> NULL (HWLOC_SYNTHETIC_VERBOSE unset: verbose only selects fprintf calls)
 *   hwloc_type_sscanf         -> contract: -1, or 0 with any valid type; cache types carry their depth (1..5, 1..3 for
 *                                instruction caches) and a valid cache type, Group any depth.  The real function is checked
 *                                against this very contract by C11's hwloc_type_sscanf job (bounded strings).
 *   hwloc_obj_type_string     -> a fixed literal; hwloc_obj_type_snprintf -> the snprintf contract stub (proved for the
 *                                real function under C11)
 *   strtoul/strtoull/strtol   -> SYNTH_DIGITS: decimal value and end pointer of the maximal run of decimal digits
 *                                (exact for the unsigned decimal numbers of the structured descriptions);
 *                                otherwise the over-approximating stub of stubs/strtoul.h (end anywhere in the string)
 */
#include "verif_prelude.h"
#include <stdio.h>
#include <limits.h>
#include "snprintf.h"
#ifdef SYNTH_DIGITS
static size_t verif_digits(const char *p) { size_t k = 0; while (p[k] >= '0' && p[k] <= '9') k++; return k; }
#ifdef SYNTH_ANYVALUE   /* exact end position, ARBITRARY value: the numbers of the text stand for any numbers */
static unsigned long verif_decimal(const char *p) { return (p[0] >= '0' && p[0] <= '9') ? nondet_ulong() : 0; }
#else
static unsigned long verif_decimal(const char *p) { unsigned long v = 0; size_t k = 0; while (p[k] >= '0' && p[k] <= '9') { v = v * 10 + (unsigned long)(p[k] - '0'); k++; } return v; }
#endif
unsigned long strtoul(const char *nptr, char **endptr, int base)
{ size_t k = verif_digits(nptr); (void)base; if (endptr) *endptr = (char *)nptr + k; return verif_decimal(nptr); }
long strtol(const char *nptr, char **endptr, int base)
{ size_t k = verif_digits(nptr); (void)base; if (endptr) *endptr = (char *)nptr + k; return (long)verif_decimal(nptr); }
unsigned long long strtoull(const char *nptr, char **endptr, int base)
{ size_t k = verif_digits(nptr); (void)base; if (endptr) *endptr = (char *)nptr + k; return verif_decimal(nptr); }
#else
#include "strtoul.h"
unsigned long long strtoull(const char *nptr, char **endptr, int base) { return strtoul(nptr, endptr, base); }
#endif
#include "strspn.h"
#include "strncasecmp.h"
char *getenv(const char *name) { (void)name; return (char *)0; }
#include "traversal.arena.h"
/* memmove model for the one call of the file (shifting the level table up by one entry): element-wise backward copy,
 * exact for dst > src; every element access is bounds-checked (a byte-wise model of symbolic length over the 13 KiB
 * table exhausts memory) */
void *verif_memmove_levels(void *dst, const void *src, size_t n);
#define memmove verif_memmove_levels
#include HWLOC_VERIF_SRC_SYNTHETIC
#undef memmove
void *verif_memmove_levels(void *dst, const void *src, size_t n)
{
  struct hwloc_synthetic_level_data_s *d = dst; const struct hwloc_synthetic_level_data_s *s = src; size_t k = n / sizeof(*d);
  __CPROVER_assert(n % sizeof(*d) == 0 && (const char *)dst > (const char *)src, "memmove model: whole elements, shifting up");
  while (k > 0) { k--; d[k] = s[k]; }
  return dst;
}

union hwloc_obj_attr_u nondet_attr(void);
int hwloc_type_sscanf(const char *string, hwloc_obj_type_t *typep, union hwloc_obj_attr_u *attrp, size_t attrsize)
{
  hwloc_obj_type_t type = (hwloc_obj_type_t)nondet_int();
  __CPROVER_assert(string[0] == string[0], "type string is readable");
#ifdef SYNTH_DIGITS
  /* structured descriptions: the first letter selects the type (g Group, p Package, d Die, c Core, n NUMANode, l L2, i L1i, u PU) */
  switch (string[0]) {
  case 'g': type = HWLOC_OBJ_GROUP; break;   case 'p': type = HWLOC_OBJ_PACKAGE; break;  case 'd': type = HWLOC_OBJ_DIE; break;
  case 'c': type = HWLOC_OBJ_CORE; break;    case 'n': type = HWLOC_OBJ_NUMANODE; break; case 'l': type = HWLOC_OBJ_L2CACHE; break;
  case 'i': type = HWLOC_OBJ_L1ICACHE; break; case 'u': type = HWLOC_OBJ_PU; break;
  default: return -1;
  }
#else
  if (nondet_bool()) return -1;
  __CPROVER_assume(type >= HWLOC_OBJ_TYPE_MIN && type < HWLOC_OBJ_TYPE_MAX);
#endif
  *typep = type;
  if (attrp) {
    __CPROVER_assert(attrsize == sizeof(*attrp), "callers pass the whole union");
    *attrp = nondet_attr();
    if (type >= HWLOC_OBJ_L1CACHE && type <= HWLOC_OBJ_L5CACHE) {
      attrp->cache.depth = (unsigned)(type - HWLOC_OBJ_L1CACHE) + 1;
      __CPROVER_assume(attrp->cache.type == HWLOC_OBJ_CACHE_UNIFIED || attrp->cache.type == HWLOC_OBJ_CACHE_DATA);
    } else if (type >= HWLOC_OBJ_L1ICACHE && type <= HWLOC_OBJ_L3ICACHE) {
      attrp->cache.depth = (unsigned)(type - HWLOC_OBJ_L1ICACHE) + 1;
      attrp->cache.type = HWLOC_OBJ_CACHE_INSTRUCTION;
    }
  }
  return 0;
}
/* copy of the body in traversal.c (external to this file; it is loop-free) */
hwloc_obj_t hwloc_get_obj_by_depth(struct hwloc_topology *topology, int depth, unsigned idx)
{
  if ((unsigned)depth >= topology->nb_levels) {
    unsigned l = HWLOC_SLEVEL_FROM_DEPTH(depth);
    if (l < HWLOC_NR_SLEVELS)
      return idx < topology->slevels[l].nbobjs ? topology->slevels[l].objs[idx] : (hwloc_obj_t)0;
    return (hwloc_obj_t)0;
  }
  if (idx >= topology->level_nbobjects[depth])
    return (hwloc_obj_t)0;
  return topology->levels[depth][idx];
}
const char *hwloc_obj_type_string(hwloc_obj_type_t type) { static const char verif_tname[] = "Type"; (void)type; return verif_tname; }
int hwloc_obj_type_snprintf(char *string, size_t size, hwloc_obj_t obj, unsigned long flags)
{ (void)obj; (void)flags; return snprintf(string, size, "x"); }
/* contract of hwloc__export_synthetic_indexes in executable form (used through goto-instrument --replace-calls in the
 * composite harnesses; the real function is checked against the same snprintf-style contract by hp_synth_export_indexes) */
int verif_export_indexes_contract(hwloc_obj_t *level, unsigned total, char *buffer, size_t buflen)
{
  __CPROVER_assert(total == 0 || level[0] == level[0], "level array is readable");
  return snprintf(buffer, buflen, "i");
}
/* likewise for hwloc__export_synthetic_obj_attr / _obj / _memory_children in their callers' harnesses: from the caller's side
 * a snprintf-style callee is one piece (-1, or a length with the text clamped into [buffer, buffer+buflen) and NUL-terminated) */
int verif_export_obj_attr_contract(struct hwloc_topology *topology, unsigned long flags, hwloc_obj_t obj, char *buffer, size_t buflen)
{ (void)topology; (void)flags; __CPROVER_assert(obj->type == obj->type, "object is readable"); return snprintf(buffer, buflen, "a"); }
int verif_export_obj_contract(struct hwloc_topology *topology, unsigned long flags, hwloc_obj_t obj, unsigned arity, char *buffer, size_t buflen)
{ (void)topology; (void)flags; (void)arity; __CPROVER_assert(obj->type == obj->type, "object is readable"); return snprintf(buffer, buflen, "o"); }
unsigned verif_mc_calls;
int verif_export_memory_children_contract(struct hwloc_topology *topology, unsigned long flags, hwloc_obj_t parent, char *buffer, size_t buflen, int needprefix, int verbose)
{ (void)topology; (void)flags; (void)needprefix; (void)verbose; __CPROVER_assert(parent->type == parent->type, "object is readable"); verif_mc_calls++; return snprintf(buffer, buflen, "m"); }
#include "synthetic.harness.c"
