/* Driver TU for the guard / error-path contracts on /repo/hwloc/distances.c (the real file). */
#include "verif_prelude.h"
#include "private/autogen/config.h"
#include "hwloc.h"
#include "private/private.h"
#include "topology.model.h"
#define GUARD_DISTANCES
#include HWLOC_VERIF_SRC_DISTANCES
#include "guard.contracts.h"
#include "guard.harness.c"
