/* Driver TU for the refresh code of /repo/hwloc/memattrs.c (C14): the verified text is the real file.
 * Dependencies: bitmaps are exact sets over an 8-PU universe (and / iszero / free: the real ones are verified under C03);
 * hwloc_get_obj_by_type_and_gp_index is a table stub: object `gp` of the harness exists in the changed topology iff survive[gp]. */
#include "verif_prelude.h"
#include "private/autogen/config.h"
#include "hwloc.h"
#include "private/private.h"
struct hwloc_bitmap_s { unsigned char bits; int live; unsigned freed; };
int hwloc_bitmap_and(hwloc_bitmap_t r, hwloc_const_bitmap_t a, hwloc_const_bitmap_t b) { __CPROVER_assert(r->live && a->live && b->live, "cpusets used while allocated"); r->bits = a->bits & b->bits; return 0; }
int hwloc_bitmap_iszero(hwloc_const_bitmap_t s) { __CPROVER_assert(s->live, "cpuset used while allocated"); return s->bits == 0; }
void hwloc_bitmap_free(hwloc_bitmap_t s) { if (s) { __CPROVER_assert(s->live, "no double free of a cpuset"); s->live = 0; s->freed++; } }
#define RF_NOBJ 4
struct hwloc_obj verif_objs[RF_NOBJ]; _Bool verif_survive[RF_NOBJ];
hwloc_obj_t hwloc_get_obj_by_type_and_gp_index(hwloc_topology_t topology, hwloc_obj_type_t type, uint64_t gp_index)
{ (void)topology; (void)type; return (gp_index < RF_NOBJ && verif_survive[gp_index]) ? &verif_objs[gp_index] : (hwloc_obj_t)0; }
/* the os_index look-ups (helper.h inlines over these two externals) are not exercised: the harness gives every target a gp_index */
int hwloc_get_type_depth(hwloc_topology_t topology, hwloc_obj_type_t type) { (void)topology; (void)type; return HWLOC_TYPE_DEPTH_UNKNOWN; }
hwloc_obj_t hwloc_get_obj_by_depth(hwloc_topology_t topology, int depth, unsigned idx) { (void)topology; (void)depth; (void)idx; return (hwloc_obj_t)0; }
/* memcpy model for the two compaction loops (whole targets / whole initiators are moved down): structure assignment instead of
 * a byte-wise copy between symbolic offsets (which exhausts the SAT back end's memory) */
void *verif_memcpy_elems(void *d, const void *s, size_t n);
#define memcpy verif_memcpy_elems
#include HWLOC_VERIF_SRC_MEMATTRS
#undef memcpy
void *verif_memcpy_elems(void *d, const void *s, size_t n)
{
  if (n == sizeof(struct hwloc_internal_memattr_initiator_s)) *(struct hwloc_internal_memattr_initiator_s *)d = *(const struct hwloc_internal_memattr_initiator_s *)s;
  else if (n == sizeof(struct hwloc_internal_memattr_target_s)) *(struct hwloc_internal_memattr_target_s *)d = *(const struct hwloc_internal_memattr_target_s *)s;
  else __CPROVER_assert(0, "memcpy model: only whole targets / initiators are copied in this harness");
  return d;
}
#include "memattrs.refresh.harness.c"
