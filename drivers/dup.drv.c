/* Driver TU for the duplication code of /repo/hwloc/topology.c (C12 leaves): the verified text is the real file.
 * Dependencies outside topology.c are contract stubs:
 *   struct hwloc_bitmap_s          -> a record of what the bitmap is a duplicate of (the real hwloc_bitmap_tma_dup is proved
 *                                     under C03 / C12 job hwloc_bitmap_dup: fresh block, equal abstract value)
 *   hwloc_internal_{distances,memattrs,cpukinds}_dup -> logging stubs returning 0 (distances_dup has its own job)
 *   component / PCI / distances / memattrs / cpukinds init -> no-ops on the fields hwloc__topology_dup does not read back
 *   hwloc_get_obj_by_depth          -> copy of the loop-free body in traversal.c
 */
#include "verif_prelude.h"
#include "private/autogen/config.h"
#include "hwloc.h"
#include "private/private.h"
struct hwloc_bitmap_s { hwloc_const_bitmap_t dup_of; int live; };
hwloc_bitmap_t hwloc_bitmap_tma_dup(struct hwloc_tma *tma, hwloc_const_bitmap_t old)
{
  struct hwloc_bitmap_s *n;
  (void)tma;
  if (!old) return (hwloc_bitmap_t)0;
  n = malloc(sizeof(*n)); __CPROVER_assume(n != 0);
  n->dup_of = old; n->live = 1;
  return n;
}
hwloc_bitmap_t hwloc_bitmap_alloc(void) { struct hwloc_bitmap_s *n = malloc(sizeof(*n)); __CPROVER_assume(n != 0); n->dup_of = 0; n->live = 1; return n; }
void hwloc_bitmap_free(hwloc_bitmap_t b) { if (b) b->live = 0; }
hwloc_obj_t hwloc_get_obj_by_depth(struct hwloc_topology *topology, int depth, unsigned idx)
{
  if ((unsigned)depth >= topology->nb_levels) {
    unsigned l = HWLOC_SLEVEL_FROM_DEPTH(depth);
    if (l < HWLOC_NR_SLEVELS)
      return idx < topology->slevels[l].nbobjs ? topology->slevels[l].objs[idx] : (hwloc_obj_t)0;
    return (hwloc_obj_t)0;
  }
  if (idx >= topology->level_nbobjects[depth])
    return (hwloc_obj_t)0;
  return topology->levels[depth][idx];
}
unsigned verif_dup_calls[3]; struct hwloc_topology *verif_dup_new[3], *verif_dup_old[3];
int hwloc_internal_distances_dup(struct hwloc_topology *n, struct hwloc_topology *o) { verif_dup_calls[0]++; verif_dup_new[0] = n; verif_dup_old[0] = o; return 0; }
int hwloc_internal_memattrs_dup(struct hwloc_topology *n, struct hwloc_topology *o) { verif_dup_calls[1]++; verif_dup_new[1] = n; verif_dup_old[1] = o; return 0; }
int hwloc_internal_cpukinds_dup(struct hwloc_topology *n, struct hwloc_topology *o) { verif_dup_calls[2]++; verif_dup_new[2] = n; verif_dup_old[2] = o; return 0; }
void hwloc_components_init(void) {}
void hwloc_topology_components_init(struct hwloc_topology *t) { (void)t; }
void hwloc_pci_discovery_init(struct hwloc_topology *t) { (void)t; }
void hwloc_internal_distances_init(struct hwloc_topology *t) { t->first_dist = t->last_dist = 0; t->next_dist_id = 0; }
void hwloc_internal_memattrs_init(struct hwloc_topology *t) { t->nr_memattrs = 0; t->memattrs = 0; }
void hwloc_internal_cpukinds_init(struct hwloc_topology *t) { t->nr_cpukinds = 0; t->nr_cpukinds_allocated = 0; t->cpukinds = 0; }
char *getenv(const char *name) { (void)name; return (char *)0; }
#include HWLOC_VERIF_SRC_TOPOLOGY
#include "dup.harness.c"
