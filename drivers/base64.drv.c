/* Driver TU for /repo/hwloc/base64.c (a leaf of C05): the verified text is the real file; bounded harnesses. */
#include "verif_prelude.h"
#include "private/autogen/config.h"
#include "hwloc.h"
#include "private/private.h"
#include <ctype.h>
/* glibc's isspace is a table lookup through __ctype_b_loc(), which has no model: C-locale definition (trusted) */
#undef isspace
static int verif_isspace(int c) { return c == ' ' || (c >= '\t' && c <= '\r'); }
#define isspace verif_isspace
#include HWLOC_VERIF_SRC_BASE64
#include "base64.harness.c"
