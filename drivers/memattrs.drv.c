/* Driver TU for /repo/hwloc/memattrs.c (C14): the verified text is the real file; plain harnesses. */
#include "verif_prelude.h"
#include "private/autogen/config.h"
#include "hwloc.h"
#include "private/private.h"
#include HWLOC_VERIF_SRC_MEMATTRS
#include "memattrs.harness.c"
