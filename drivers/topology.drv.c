/* Driver TU for /repo/hwloc/topology.c: the verified text is the real file. */
#include "verif_prelude.h"
#include HWLOC_VERIF_SRC_TOPOLOGY
#include "topology.harness.c"
