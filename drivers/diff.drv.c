/* Driver TU for /repo/hwloc/diff.c (C16): the verified text is the real file; plain harnesses on explicit small states. */
#include "verif_prelude.h"
#include "private/autogen/config.h"
#include "hwloc.h"
#include "private/private.h"
#include "diff.model.h"
#include HWLOC_VERIF_SRC_DIFF
#include "diff.harness.c"
