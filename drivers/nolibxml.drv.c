/* Driver TU for the in-place scanners of /repo/hwloc/topology-xml-nolibxml.c (a leaf of C06): bounded harnesses. */
#include "verif_prelude.h"
#include "strspn.h"
#include <stdarg.h>
#include <stdio.h>
/* sscanf model for the one format hwloc_nolibxml_look_init uses, "<topology version=\"%u.%u\">" (ISO C 7.21.6.2): literal
 * characters must match, each %u converts a non-empty run of decimal digits, the return value counts the conversions made
 * before the first mismatch -- text after the last conversion is NOT required to match */
int sscanf(const char *str, const char *fmt, ...)
{
  static const char lit[] = "<topology version=\"";
  va_list ap; unsigned *a, *b; size_t k = 0, d; unsigned v;
  __CPROVER_assert(fmt[0] == '<' && fmt[1] == 't' && fmt[19] == '%' && fmt[20] == 'u' && fmt[21] == '.' && fmt[22] == '%' && fmt[23] == 'u', "sscanf model: only the format of look_init is modelled");
  va_start(ap, fmt); a = va_arg(ap, unsigned *); b = va_arg(ap, unsigned *); va_end(ap);
  if (!str[0]) return -1;
  for (k = 0; k < sizeof(lit) - 1; k++) if (str[k] != lit[k]) return 0;
  for (d = 0, v = 0; str[k] >= '0' && str[k] <= '9'; k++, d++) v = v * 10 + (unsigned)(str[k] - '0');
  if (!d) return 0;
  *a = v;
  if (str[k] != '.') return 1;
  k++;
  for (d = 0, v = 0; str[k] >= '0' && str[k] <= '9'; k++, d++) v = v * 10 + (unsigned)(str[k] - '0');
  if (!d) return 1;
  *b = v;
  return 2;
}
#include HWLOC_VERIF_SRC_NOLIBXML
#include "nolibxml.harness.c"
