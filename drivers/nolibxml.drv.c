/* Driver TU for the in-place scanners of /repo/hwloc/topology-xml-nolibxml.c (a leaf of C06): bounded harnesses. */
#include "verif_prelude.h"
#include "strspn.h"
#include HWLOC_VERIF_SRC_NOLIBXML
#include "nolibxml.harness.c"
