/* Driver TU for the guard / error-path contracts on /repo/hwloc/topology.c (the real file). */
#include "verif_prelude.h"
#include "private/autogen/config.h"
#include "hwloc.h"
#include "private/private.h"
#include "topology.model.h"
#define GUARD_TOPOLOGY
/* traversal.c is not part of this TU: contract stub for the only lookup made here (the root object) */
hwloc_obj_t hwloc_get_obj_by_depth(struct hwloc_topology *topology, int depth, unsigned idx)
{
  __CPROVER_assert(depth == 0 && idx == 0, "only the root object is looked up");
  return topology->levels[0][0];
}
#include HWLOC_VERIF_SRC_TOPOLOGY
#include "guard.contracts.h"
#include "guard.harness.c"
