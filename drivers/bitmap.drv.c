/* Driver TU for /repo/hwloc/bitmap.c: the verified text is the real file. */
#include "verif_prelude.h"
#include "realloc.h"
#include "memcpy_words.h"
#include "strtoul.h"
#include "bitmap.loops.h"
#include HWLOC_VERIF_SRC_BITMAP
#include "bitmap.contracts.h"
#include "bitmap.quant.h"
#include "bitmap.harness.c"
