/* Driver TU for /repo/hwloc/cpukinds.c (C15): the verified text is the real file. */
#include "verif_prelude.h"
#include "private/autogen/config.h"
#include "hwloc.h"
#include "private/private.h"
#include "cpukinds.model.h"
/* libc memmove on the kinds array (restrict): element-wise stub, checks that whole elements are moved (cbmc's byte-wise model does not scale on struct arrays) */
#define memmove verif_memmove_kinds
#include HWLOC_VERIF_SRC_CPUKINDS
#include "cpukinds.harness.c"
