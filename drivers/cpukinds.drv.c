/* Driver TU for /repo/hwloc/cpukinds.c (C15): the verified text is the real file. */
#include "verif_prelude.h"
#include "private/autogen/config.h"
#include "hwloc.h"
#include "private/private.h"
#include "cpukinds.model.h"
#include HWLOC_VERIF_SRC_CPUKINDS
#include "cpukinds.harness.c"
