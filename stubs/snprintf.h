/* snprintf contract in executable form (trusted stub, DESIGN.md sections 3/5).
 *
 * C99: writes at most `size` bytes including the terminating NUL, returns the length the
 * complete text needs (or a negative value on an encoding error), never touches str when
 * size==0.  The produced characters are abstracted: the stub writes the terminating NUL,
 * a non-NUL first byte and one non-NUL byte at a nondeterministic offset -- sound for callers
 * that never read their own output back except for "is it empty" tests.  Every store goes
 * through str[...] and is therefore bounds- and NULL-checked by cbmc.
 *
 * Ghost accounting for the harness buffer verif_buf (the caller's destination):
 *   verif_snprintf_sum   sum of the lengths returned by calls whose destination is the harness buffer
 *   verif_snprintf_neg   some call returned a negative value
 *   verif_last_nul       offset (from verif_buf) where the last such call with size>0 put its NUL
 */
#ifndef VERIF_SNPRINTF_H
#define VERIF_SNPRINTF_H
#ifndef PIECE_MAX
#define PIECE_MAX (1 << 20)
#endif
char *verif_buf;
long verif_snprintf_sum;
int verif_snprintf_neg;
size_t verif_last_nul;   /* offset from verif_buf */
unsigned verif_snprintf_calls;

int snprintf(char *str, size_t size, const char *fmt, ...)
{
  int ret = nondet_int();
  int mine = (str == (char *)0) ? (verif_buf == (char *)0) : (verif_buf != (char *)0 && __CPROVER_same_object(str, verif_buf));
  __CPROVER_assume(ret >= -1 && ret <= PIECE_MAX);   /* libc contract: -1 (error) or a length; PIECE_MAX keeps int sums finite */
  verif_snprintf_calls++;
  if (ret < 0) {
    if (mine) verif_snprintf_neg = 1;
    return ret;
  }
  if (size > 0) {
    size_t p = ((size_t)ret < size) ? (size_t)ret : size - 1;
#ifndef STUB_NO_CONTENT
    if (p > 0) {
      char c = nondet_char(), d = nondet_char();
      size_t q = nondet_size_t();
      __CPROVER_assume(c != 0 && d != 0);
      str[0] = c;
      if (q < p) str[q] = d;
    }
#endif
    str[p] = 0;
#ifndef VERIF_ASPRINTF
    if (mine) verif_last_nul = (size_t)(str - verif_buf) + p;
#endif
  }
#ifndef VERIF_ASPRINTF
  if (mine) verif_snprintf_sum += ret;
#endif
  return ret;
}
#endif
