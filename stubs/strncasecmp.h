#ifndef VERIF_STRNCASECMP_H
#define VERIF_STRNCASECMP_H
#include <strings.h>
/* strncasecmp model (trusted, ASCII): the caller's "osdev[" / "os[" prefix tests rely on equality implying length */
int strncasecmp(const char *a, const char *b, size_t n)
{
  size_t i;
  for (i = 0; i < n; i++) {
    char x = a[i], y = b[i];
    if (x >= 'A' && x <= 'Z') x = (char)(x - 'A' + 'a');
    if (y >= 'A' && y <= 'Z') y = (char)(y - 'A' + 'a');
    if (x != y) return x < y ? -1 : 1;
    if (!x) return 0;
  }
  return 0;
}
#endif
