/* Abstract memcpy for word arrays (trusted stub, DESIGN.md section 5).
 *
 * CBMC's built-in memcpy with a symbolic length is a byte-array copy that costs
 * minutes and tens of GB on these harnesses.  This stub checks the ISO C
 * preconditions (both ranges valid, no overlap), then leaves the destination
 * OBJECT with arbitrary contents except for the ghost words g_k and g_k2,
 * which are copied when they lie inside the copied range.  Sound for proofs
 * that only observe words g_k/g_k2 of the destination (all contracts here);
 * over-approximates memcpy otherwise (bytes of the destination object outside
 * [dst,dst+n) become arbitrary too, which can only cause extra alarms).
 */
#ifndef VERIF_MEMCPY_WORDS_H
#define VERIF_MEMCPY_WORDS_H
void *memcpy(void *dst, const void *src, size_t n)
{
  if (n > 0) {
    __CPROVER_assert(__CPROVER_r_ok(src, n), "memcpy source readable");
    __CPROVER_assert(__CPROVER_w_ok(dst, n), "memcpy destination writable");
    __CPROVER_assert(!__CPROVER_same_object(dst, src)
                     || (const char *)src + n <= (const char *)dst
                     || (const char *)dst + n <= (const char *)src, "memcpy ranges do not overlap");
    unsigned long w1 = 0, w2 = 0;
    size_t hi = (size_t)g_k * sizeof(unsigned long) + sizeof(unsigned long);
    size_t hi2 = (size_t)g_k2 * sizeof(unsigned long) + sizeof(unsigned long);
    if (hi <= n) w1 = ((const unsigned long *)src)[g_k];
    if (hi2 <= n) w2 = ((const unsigned long *)src)[g_k2];
    __CPROVER_havoc_object(dst);
    if (hi <= n) ((unsigned long *)dst)[g_k] = w1;
    if (hi2 <= n) ((unsigned long *)dst)[g_k2] = w2;
  }
  return dst;
}
#endif
