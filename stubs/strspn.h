/* strspn model (trusted, ISO C 7.24.5.6): length of the initial segment of s made of characters of accept */
#ifndef VERIF_STRSPN_H
#define VERIF_STRSPN_H
size_t strspn(const char *s, const char *accept)
{
  size_t n = 0;
  while (s[n]) {
    const char *a = accept; int ok = 0;
    while (*a) { if (*a == s[n]) { ok = 1; break; } a++; }
    if (!ok) break;
    n++;
  }
  return n;
}
/* strcspn model (trusted, ISO C 7.24.5.3): length of the initial segment of s made of characters NOT in reject */
size_t strcspn(const char *s, const char *reject)
{
  size_t n = 0;
  while (s[n]) {
    const char *a = reject; int hit = 0;
    while (*a) { if (*a == s[n]) { hit = 1; break; } a++; }
    if (hit) break;
    n++;
  }
  return n;
}
#endif
