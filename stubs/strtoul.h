/* strtoul / strtol contract stubs (trusted, ISO C 7.22.1.4): the end pointer lies inside
 * [nptr, nptr + strlen(nptr)], the value is arbitrary.  Which characters are consumed is NOT modelled
 * (any prefix length is possible): an over-approximation, sound for memory safety and return-value
 * obligations of the callers; it cannot decide what value a text denotes. */
#ifndef VERIF_STRTOUL_H
#define VERIF_STRTOUL_H
unsigned long strtoul(const char *nptr, char **endptr, int base)
{
  size_t len = strlen(nptr), k = nondet_size_t();
  (void)base;
  __CPROVER_assume(k <= len);
  if (endptr) *endptr = (char *)nptr + k;
#ifdef STRTOUL_MAX      /* bounded stand-ins only: keeps the index-driven loops of the callers within the unwinding bound */
  { unsigned long v = nondet_ulong(); __CPROVER_assume(v <= STRTOUL_MAX); return v; }
#else
  return nondet_ulong();
#endif
}
#ifdef STRTOL_EXACT     /* concrete texts only (table round trips): exact unsigned decimal value and end position */
long strtol(const char *nptr, char **endptr, int base)
{
  long v = 0; size_t k = 0;
  (void)base;
  while (nptr[k] >= '0' && nptr[k] <= '9') { v = v * 10 + (nptr[k] - '0'); k++; }
  if (endptr) *endptr = (char *)nptr + k;
  return v;
}
#else
long strtol(const char *nptr, char **endptr, int base)
{
  size_t len = strlen(nptr), k = nondet_size_t();
  (void)base;
  __CPROVER_assume(k <= len);
  if (endptr) *endptr = (char *)nptr + k;
  return (long)nondet_ulong();
}
#endif
#endif
