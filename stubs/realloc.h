/* Abstract realloc (trusted stub, DESIGN.md section 5).
 *
 * Either fails (returns NULL, old block untouched) or returns a fresh block of
 * the requested size whose contents are arbitrary except for the ghost words
 * g_k and g_k2, which are copied when they lie inside both blocks; the old block is freed.
 * Every behaviour of ISO C realloc restricted to what a proof about word g_k
 * can observe is included (more behaviours than libc: an over-approximation),
 * so what is proved with g_k free holds for the real realloc.
 */
#ifndef VERIF_REALLOC_H
#define VERIF_REALLOC_H
void *realloc(void *p, size_t n)
{
  if (nondet_bool())
    return (void *)0;
  unsigned long *q = malloc(n);
  if (!q)
    return (void *)0;
  if (p) {
    size_t osz = __CPROVER_OBJECT_SIZE(p);
    size_t hi = (size_t)g_k * sizeof(unsigned long) + sizeof(unsigned long);
    size_t hi2 = (size_t)g_k2 * sizeof(unsigned long) + sizeof(unsigned long);
    if (hi <= osz && hi <= n)
      q[g_k] = ((unsigned long *)p)[g_k];
    if (hi2 <= osz && hi2 <= n)
      q[g_k2] = ((unsigned long *)p)[g_k2];
    free(p);
  }
  return q;
}
#endif
