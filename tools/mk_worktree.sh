#!/bin/bash
# mk_worktree.sh <dir>: scratch git worktree of /repo HEAD at <dir> (outside /repo and /verif), with the
# in-tree build outputs (configure, Makefiles: git-ignored) copied over, every absolute /repo path in
# config.status rewritten to <dir> and the tree rebuilt, so that `make` and `make check` in <dir> build
# and test <dir>'s own sources (the copied Makefiles/libtool wrappers would otherwise point at /repo).
# Remove with: git -C /repo worktree remove --force <dir>
set -e
d=$1
git -C /repo worktree add --detach "$d" HEAD >/dev/null 2>&1
rsync -a --ignore-existing --exclude .git /repo/ "$d"/
find "$d" \( -name Makefile.in -o -name configure -o -name aclocal.m4 -o -name 'config.h.in' \) -exec touch {} +
sleep 1
cd "$d"
sed -i "s|/repo\b|$d|g" config.status libtool
./config.status >/dev/null 2>&1
true
make clean >/dev/null 2>&1 || true
make -j16 >/dev/null 2>&1
echo "$d ready: $(grep -c "$d" tests/hwloc/Makefile) references to $d in tests/hwloc/Makefile"
