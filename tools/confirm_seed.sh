#!/bin/bash
# confirm_seed.sh <seed_dir> <worktree>: independently confirm a seeded change in a scratch worktree:
#  patch applies, library builds, FULL test suite passes with the patch, demo fails with it and passes without.
# Writes <seed_dir>/confirm.log and prints a one-line JSON summary.
sd=$(readlink -f "$1"); wt=$2
log=$sd/confirm.log; : > $log
cd "$wt" || exit 2
git checkout -q -- . 2>>$log
git apply --check "$sd/patch.diff" >>$log 2>&1 || { echo "{\"seed\":\"$(basename $sd)\",\"applies\":false}"; exit 1; }
git apply "$sd/patch.diff"
make -j16 >>$log 2>&1; build=$?
make -k check -j8 > $sd/make_check.with_patch.log 2>&1; suite=$?
npass=$(grep -c "^PASS:" $sd/make_check.with_patch.log); nfail=$(grep -c "^FAIL:\|^ERROR:" $sd/make_check.with_patch.log)
gcc -I$wt/include $sd/demo.c $wt/hwloc/.libs/libhwloc.so -Wl,-rpath,$wt/hwloc/.libs -o /tmp/demo_$$ >>$log 2>&1
timeout 20 /tmp/demo_$$ >> $log 2>&1; demo_with=$?
git checkout -q -- .
make -j16 >>$log 2>&1
gcc -I$wt/include $sd/demo.c $wt/hwloc/.libs/libhwloc.so -Wl,-rpath,$wt/hwloc/.libs -o /tmp/demo_$$ >>$log 2>&1
timeout 20 /tmp/demo_$$ >> $log 2>&1; demo_without=$?
rm -f /tmp/demo_$$
echo "{\"seed\":\"$(basename $sd)\",\"applies\":true,\"build_rc\":$build,\"suite_rc\":$suite,\"suite_pass\":$npass,\"suite_fail\":$nfail,\"demo_rc_with_patch\":$demo_with,\"demo_rc_without\":$demo_without}" | tee $sd/confirm.json
