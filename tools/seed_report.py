#!/usr/bin/env python3
"""Runs every seeded change in /verif/seeded against its check (tools/try_seed.sh) and writes seeded/<id>/meta.json."""
import json, os, re, subprocess, sys
HERE = os.path.dirname(os.path.dirname(os.path.abspath(__file__)))
ONLY = {  # restrict to the jobs of the touched function where the full property check is long
 "C03-c03c-1": "hwloc_bitmap_compare(__q.*)?$", "C03-c03c-2": "hwloc_bitmap_or$", "C03-c03c-3": "nr_ulongs", "C03-c03c-4": "hwloc_bitmap_set_range",
 "C03-c03a-1": "andnot", "C03-c03a-2": "clr_range", "C03-c03a-3": "isincluded", "C03-c03b-1": "compare_first", "C03-c03b-2": "next_unset", "C03-c03b-3": "xor",
}
NEEDS = {}
def main():
    only_ids = sys.argv[1:]
    rows = []
    for d in sorted(os.listdir(os.path.join(HERE, "seeded"))):
        sd = os.path.join(HERE, "seeded", d)
        if not os.path.isdir(sd) or (only_ids and d not in only_ids):
            continue
        prop = d.split("-")[0]
        if d == "C06-a-4":
            prop = "C05"       # the base64 decoder: checked under C05 (and C06)
        cmd = [os.path.join(HERE, "tools", "try_seed.sh"), sd, prop] + ([ONLY[d]] if d in ONLY else [])
        p = subprocess.run(cmd, capture_output=True, text=True)
        out = p.stdout
        m = re.search(r"exit (\d+)", out)
        rc = int(m.group(1)) if m else None
        viol = re.findall(r"VIOLATION property=\S+ replay=(\S+)( no-failing-input-found)?", out)
        lost = re.findall(r"PROOF-LOST[^\n]*", out)
        readme = open(os.path.join(sd, "README.txt")).read() if os.path.exists(os.path.join(sd, "README.txt")) else ""
        conf = json.load(open(os.path.join(sd, "confirm.json"))) if os.path.exists(os.path.join(sd, "confirm.json")) else None
        meta = {
            "seed": d, "property": prop, "source": "independent sub-agent given only the property text and a scratch worktree",
            "what_it_needs_to_manifest": " ".join(readme.split())[:900],
            "confirmed_by_me": conf,
            "what_i_ran": {"confirm": "tools/confirm_seed.sh seeded/%s <scratch worktree>  (apply, build, full make check, demo with/without)" % d,
                           "check": " ".join(cmd[0:1] + ["seeded/" + d] + cmd[2:])},
            "check_exit_code": rc,
            "detected": rc == 1,
            "refuted_obligations": [os.path.basename(v[0]).replace(".json", "") for v in viol],
            "native_replay_confirmed": any(not v[1] for v in viol),
            "proof_lost": lost,
        }
        json.dump(meta, open(os.path.join(sd, "meta.json"), "w"), indent=1)
        rows.append((d, rc, meta["native_replay_confirmed"], meta["refuted_obligations"][:2]))
        print(d, rc, meta["native_replay_confirmed"], meta["refuted_obligations"][:2], flush=True)
main()
