#!/bin/bash
# try_seed_wt.sh <seed_dir> <property> [only-regex] [tier]: run a check against a seeded change WITHOUT touching /repo:
# a scratch worktree of /repo HEAD (plus the in-tree build outputs, so that native replays can rebuild libhwloc.so there)
# gets the patch, the check runs with VERIF_REPO pointing at it, the worktree is removed afterwards.
# Same verdict as tools/try_seed.sh (apply to /repo, check, undo); used so that several seeds can be tried while /repo is in use.
sd=$(readlink -f $1); prop=$2; only=$3; tier=${4:-quick}
id=$(basename $sd); wt=/tmp/sw_$id; bd=/tmp/sb_$id
git -C /repo worktree remove --force $wt >/dev/null 2>&1; rm -rf $wt $bd
git -C /repo worktree add --detach $wt HEAD >/dev/null 2>&1 || exit 2
rsync -a --ignore-existing --exclude .git /repo/ $wt/
( cd $wt && { git apply "$sd/patch.diff" 2>/dev/null || git apply --3way "$sd/patch.diff" 2>/dev/null; } ) || { echo "== $id: patch does not apply"; git -C /repo worktree remove --force $wt; exit 2; }
cd /verif
mkdir -p $sd/evidence
if [ -n "$only" ]; then VERIF_REPO=$wt VERIF_BUILD_DIR=$bd VERIF_EVIDENCE_DIR=$sd/evidence ./check $prop --tier $tier --only "$only" > $sd/check.out 2> $sd/check.err
else VERIF_REPO=$wt VERIF_BUILD_DIR=$bd VERIF_EVIDENCE_DIR=$sd/evidence ./check $prop --tier $tier > $sd/check.out 2> $sd/check.err; fi
rc=$?; echo $rc > $sd/check.rc
mv -f $sd/evidence/$prop*.json $sd/evidence.with_patch.json 2>/dev/null; rmdir $sd/evidence 2>/dev/null
git -C /repo worktree remove --force $wt >/dev/null 2>&1; rm -rf $wt $bd
echo "== $id: exit $rc"; grep "VIOLATION\|PROOF-LOST\|UNDECIDED\|KNOWN" $sd/check.out | cut -c1-250; tail -n 1 $sd/check.out
grep "^  [a-z_0-9]*: " $sd/check.err | cut -c1-300 | head -5
exit 0
