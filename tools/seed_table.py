#!/usr/bin/env python3
"""Rewrites the rounds-3/4 seed table of DESIGN.md (between the SEED-TABLE markers) from seeded/*/meta.json."""
import json, os, re
HERE = os.path.dirname(os.path.dirname(os.path.abspath(__file__)))
rows = []
for d in sorted(os.listdir(os.path.join(HERE, "seeded"))):
    if not re.search(r"-r[34]-", d):
        continue
    m = json.load(open(os.path.join(HERE, "seeded", d, "meta.json")))
    readme = open(os.path.join(HERE, "seeded", d, "README.txt")).read()
    title = [l.strip() for l in readme.split("\n") if l.strip() and not set(l.strip()) <= set("=-")][0]
    title = re.sub(r"^(C\d\d )?[/ ]*(seed|SEED)\s*\d*\s*[-–:]*\s*", "", title, flags=re.I).strip(" -")[:110]
    if m.get("check_exit_code") is None:
        verdict = (m.get("note") or "not evaluated")[:100]
    elif m["detected"]:
        verdict = "caught: `%s`%s" % ((m.get("refuted_obligations") or ["?"])[0][:80], " (native replay REPRODUCED)" if m.get("native_replay_confirmed") else "")
    elif m["check_exit_code"] == 2:
        verdict = "undecided (exit 2)"
    else:
        verdict = "**missed**"
    rows.append("| %s | %s | %s |" % (d, title.replace("|", "/"), verdict))
p = os.path.join(HERE, "DESIGN.md")
s = open(p).read()
a = s.index("<!-- SEED-TABLE-BEGIN -->"); b = s.index("<!-- SEED-TABLE-END -->")
s = s[:a] + "<!-- SEED-TABLE-BEGIN -->\n| seed | change | verdict of the check |\n|------|--------|----------------------|\n" + "\n".join(rows) + "\n" + s[b:]
open(p, "w").write(s)
print(len(rows), "rows")
