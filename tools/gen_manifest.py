#!/usr/bin/env python3
"""Regenerates /verif/MANIFEST.json from the job tables (vlib/jobs.py) and the texts below."""
import json, os, subprocess, sys
HERE = os.path.dirname(os.path.dirname(os.path.abspath(__file__)))
sys.path.insert(0, HERE)
from vlib import jobs

TECH = "contract-based deductive verification with CBMC 6.11 on the real source: "

CLAIMS = {
 "C03": dict(
  category="proof", design_ref="DESIGN.md section 2",
  technique=TECH + "function contracts + loop invariants (DFCC) on bitmap.c, ghost-index set semantics, SAT; quantified clauses on z3",
  text="Every hwloc_bitmap_* constructor, modifier, combinator and query of hwloc/bitmap.c is enforced against a contract over the abstract value of a bitmap (word function W, tail flag T) for a universally quantified ghost word/bit: all representations satisfying the representation invariant (which every function is proved to preserve, so it holds on every API history), all alias configurations, all loop iteration counts (loop invariants, no unwinding), bit indexes < 2^30. Clauses that need a quantified hypothesis (witness directions of the boolean queries, compare, compare_first, compare_inclusion classes, singlify non-emptiness) are proved without bound on z3 where it finishes and otherwise stand as bounded (<= 16/32 words) SAT runs, labelled so in the evidence; exact weight is bounded (<= 4 words).",
  note="Trusted: cbmc/DFCC/minisat/z3; abstract realloc and memcpy stubs; cbmc's __builtin_ffsl/popcountl; domain bound MAXW=2^24 words as preconditions; unsigned arithmetic is machine arithmetic; compare_first is specified by sign (the code returns differences, the documentation says -1/0/1)."),
 "C04": dict(
  category="proof", design_ref="DESIGN.md section 3 (C04)",
  technique=TECH + "loop invariants (cursor triple) on the three printers under goto-instrument --apply-loop-contracts with an snprintf contract stub; bounded unwinding for the parsers",
  text="hwloc_bitmap_snprintf, _list_snprintf and _taskset_snprintf satisfy the snprintf contract for every bitmap (any content, <= 64 stored words, both tails) and every buffer 0..64 bytes or NULL/0: nothing written outside [buf,buf+buflen) (guarded arena + bounds checks), NUL-terminated when buflen>0, return value = sum of the untruncated piece lengths, loops terminate (decreases) -- loops closed by invariants, not unwound. The three asprintf variants are memory safe over both passes and return a length with a string or -1 (<= 8 words). hwloc_bitmap_sscanf and _taskset_sscanf on an arbitrary NUL-terminated string of <= 6 bytes (allocated with its exact size, so that a read past the NUL is a refuted pointer check) return 0/-1 without out-of-bounds access or failed assertion and keep the representation invariant (bounded stand-in, labelled so). Not decided: the print/parse round trip and that asprintf and snprintf produce the same text (both need the text content, which the snprintf contract abstracts), hwloc_bitmap_list_sscanf (the runs did not fit in memory).",
  note="Trusted: snprintf (C99 contract stub, pieces <= 24 chars), strtoul (end pointer inside the string, value arbitrary), abstract realloc; parsers are bounded (strings <= 6 bytes, unwind 9)."),
 "C11": dict(
  category="proof", design_ref="DESIGN.md section 3 (C11)",
  technique=TECH + "loop invariants (cursor triple) under goto-instrument --apply-loop-contracts with an snprintf contract stub; loop-free full-domain harness for hwloc_compare_types",
  text="hwloc_obj_type_snprintf (all type values, attribute contents, flag words), its OS-device helpers (all type words, any names table) and hwloc_obj_attr_snprintf satisfy the snprintf contract: nothing is written outside [buf,buf+size) (guarded arena + bounds checks), NUL-terminated when size>0, NULL/0 accepted, the return value is the sum of the pieces' untruncated lengths, and the loops terminate (decreases clauses). hwloc_compare_types is antisymmetric, transitive, Machine highest, PU deepest, consistent with the documented kinds, exactly one kind per type, order tables are inverse permutations: all type triples. Print/parse round trip, finite part (concrete texts, complete): for each of the 7 OS-device type bits the short and the long name the printers use, alone and as the tail of a printed OS[...] text, parse back to exactly that bit, and hwloc_type_sscanf(hwloc_obj_type_string(t)) gives t back for every object type t. Bounded stand-in: hwloc_type_sscanf on an arbitrary NUL-terminated string of <= 4 bytes returns 0/-1 without out-of-bounds access, accepted strings give a valid type and cache types carry the depth and cache type matching the type. Not decided: the round trip of the attribute part of printed texts (cache/group depth digits, several OS-device names in one text).",
  note="Trusted: snprintf replaced by its C99 contract (stub); buffers 0..64 bytes, <= 8 info pairs with strings <= 3 chars; the OS-device names table is arbitrary in the proofs (statics are nondeterministic under loop-contract instrumentation)."),
 "C10": dict(
  category="proof", design_ref="DESIGN.md section 3 (C10)",
  technique=TECH + "loop-free full-domain harnesses per entry point of bind.c, OS hooks and bitmap predicates as contract stubs over ghost facts",
  text="For all 16 binding entry points of bind.c, every flag word, every policy value, every hook table (each hook independently present or missing) and every relation between the user's set and the topology/complete sets: invalid flags, invalid policy, empty or not-included sets give -1/EINVAL before any OS hook is called; a hook only ever receives the user's set or, when that covers the topology set, the complete set, with flags and policy unchanged; PROCESS/THREAD dispatch and the ENOSYS fallback are exact; no applicable hook gives -1/ENOSYS; temporary nodesets are freed on every path; on a topology that is not this system every hook is a dummy, set-calls return 0 without OS call and get-calls return the complete set (policy MIXED). Loop-free code over a full symbolic domain: complete.",
  note="Trusted: the abstract set model (bind.model.h) stands for the bitmap functions verified under C03 and for hwloc_cpuset_to/from_nodeset (C09, not claimed). The live-system sentences (kernel round trip, load restores the binding) are OS behaviour and not decided."),
 "C05": dict(
  category="other", design_ref="DESIGN.md section 3 (C05)",
  technique=TECH + "bounded plain harnesses on the real base64.c (the only leaf of the XML round trip within reach)",
  text="ONE LEAF ONLY, BOUNDED: hwloc_decode_from_base64(hwloc_encode_to_base64(x)) == x with the documented lengths and NUL termination for every byte string of length 0..4 with exact-size buffers (any access outside them is a bounds violation), a target one byte too small is refused; the decoder is memory safe on every 5-character string with every target size or NULL. The property itself -- export followed by import reproduces the topology, fixpoint, cross-backend, v2 -- is a relation between two unbounded object trees through two parsers and is not decided by this technique.",
  note="Trusted: C-locale isspace, cbmc's strchr model; bounded (lengths <= 4/5, unwind 70)."),
 "C06": dict(
  category="other", design_ref="DESIGN.md section 3 (C06)",
  technique=TECH + "bounded plain harnesses on the real in-place scanners of topology-xml-nolibxml.c; hwloc__xml_import_distances of topology-xml.c against an executable contract of the XML state API (assume-guarantee between common code and backend)",
  text="LEAVES ONLY, BOUNDED: the four in-place scanners every byte of a nolibxml import goes through first (hwloc__nolibxml_import_next_attr, _find_child, _close_tag, _get_content/_close_content) on an ARBITRARY 7-byte buffer plus terminating NUL (the shape backend_init allocates), with their cursors anywhere inside it: every read and write stays inside the buffer, the functions return -1/0/1, and every cursor and returned pointer stays inside the buffer; find_child guarantees, and next_attr assumes, that an attribute text ends before the final byte; hwloc_nolibxml_look_init on the document heads '<topology version=\"2.0\"', '<topology', '<roo', an XML declaration line or nothing, followed by 4 arbitrary bytes, returns 0/-1 and leaves its tag cursor inside the buffer (sscanf model for the one format it uses). Beyond the scanners: hwloc__xml_import_distances (topology-xml.c, common to both backends) is checked against the CONTRACT of the XML state API -- any sequence of <= 5 attributes, <= 3 children and arbitrary contents a backend may deliver (nbobjs = 2, every other number arbitrary): memory safe, returns 0/-1, hands at most one complete matrix to the core; hwloc__xml_import_userdata likewise (get_content delivers exactly the expected length, lengths < 2^32, callback present or not, decoded or not): memory safe, the callback receives `length` readable bytes, and close_content is only called after a successful get_content (ghost protocol flag of the API contract); hwloc__xml_import_cpukind likewise, with an ownership model: the cpuset it allocates is released exactly once on every path (freed or handed to the core). The property itself (any XML never corrupts memory, hangs or yields a broken topology; libxml backend; diff XML) needs the whole import over an unbounded tree and is not decided by this technique.",
  note="Trusted: strspn model, cbmc's strchr/strcmp/strncmp/strlen models; bounded (buffer 7+1 bytes, unwind 40; thorough tier 10+1)."),
 "C12": dict(
  category="proof", design_ref="DESIGN.md section 3 (C12)",
  technique=TECH + "DFCC contracts on hwloc_bitmap_dup / hwloc_bitmap_copy (every set duplicated by dup goes through them); bounded plain harnesses on the real hwloc__topology_dup, hwloc__duplicate_object, hwloc__tma_dup_infos (topology.c) and hwloc_internal_distances_dup (distances.c) with the other duplication callees as logging / contract stubs",
  text="LEAVES OF C12. Proved (all representations, loops closed by invariants): hwloc_bitmap_dup / hwloc_bitmap_tma_dup return a fresh bitmap with the same abstract value and leave the source unchanged; hwloc_bitmap_copy likewise into an existing bitmap. BOUNDED stand-ins (explicit small states, allocations succeed): hwloc__topology_dup of a topology made of one Machine object with every other field arbitrary copies flags, state, pid, the gp_index counter, type filters and depths, userdata callbacks and support bits into private storage, duplicates the allowed sets, duplicates the root field by field, calls the distances / memattrs / cpukinds duplications once each on (copy, source), refuses a topology that is not loaded with EINVAL and leaves the source untouched; hwloc__duplicate_object of a childless object copies every scalar field, the userdata pointer and the attribute bytes, duplicates the four sets into the right fields, makes private copies of name, subtype and infos and places the object in its level; hwloc__tma_dup_infos makes private copies of every pair; hwloc_internal_distances_dup builds a list with the same structures in order, consistent prev/next/first/last links, equal contents, an invalidated object cache and no storage shared with the source. Not decided: the recursion over children and the linking of siblings / cousins, memattrs and cpukinds duplication, independence under later modification of either copy (a whole-heap property), identical XML export, destroy in any order, allocation-failure paths (hwloc does not handle them on this path).",
  note="Trusted: abstract set records in the dup driver (hwloc_bitmap_tma_dup proved separately), logging stubs for the three sub-duplications in the hwloc__topology_dup job, no-op stubs for component / PCI / distances / memattrs / cpukinds init; cbmc --no-malloc-may-fail in the bounded jobs."),
 "C13": dict(
  category="proof", design_ref="DESIGN.md section 3 (C13)",
  technique=TECH + "DFCC frame contract on hwloc_distances_add_create (proof); bounded plain harnesses on the real distances.c for the transforms, refresh_one, the get filters, removals and the add path",
  text="Proved (all 2^64 kind words): hwloc_distances_add_create rejects every kind word with unknown bits, several FROM_ or several MEANS_ bits with NULL/EINVAL and an adopted topology with NULL/EPERM, assigning nothing but errno and never reaching the backend. BOUNDED stand-ins (labelled so, not counted as proved; matrices of exactly 2/3/4 objects, lists of <= 3 structures, loops unwound): the four local transforms (REMOVE_NULL, LINKS, MERGE_SWITCH_PORTS, TRANSITIVE_CLOSURE) and their dispatcher keep every non-switch object and the values between them and leave the structure untouched on refusal; hwloc_internal_distances_refresh_one re-resolves every object and keeps the exact sub-matrix of the survivors (dropped when fewer than 2 survive); hwloc_distances_get / _by_type / _by_name / _by_depth report *nr = number of matches even when the array is smaller and fill private copies in list order under exactly the documented filters; remove / remove_by_depth / release_remove delete exactly the targeted structures and keep the list links consistent; add_create + add_values + add_commit refuse invalid kinds / flags / NULL objects / fewer than 2 objects leaving the list unchanged and otherwise append a private copy with a fresh id and the caller's kind (+HETEROGENEOUS_TYPES iff types differ). Not decided: grouping at commit, restrict/dup/XML/shmem interleavings through the real tree (a count-only get after a restrict, id reuse after remove-all are histories outside these harnesses).",
  note="Trusted: object look-ups of refresh_one are table stubs (the real ones walk the tree: C09), hwloc__reconnect is a no-op stub, grouping switched off; cbmc's strcmp/strdup/memcpy models; LINKS only for bounded values (64-bit division)."),
 "C16": dict(
  category="proof", design_ref="DESIGN.md section 3 (C16)",
  technique=TECH + "DFCC contracts on hwloc_topology_diff_apply: frame contract for the rejection prefix; per-entry application replaced by a logging contract for the -N / roll-back clause",
  text="TWO CLAUSES ONLY. (1) Proved: unknown apply flags give -1/EINVAL and an adopted topology -1/EPERM, assigning nothing but errno and without applying any entry. (2) BOUNDED stand-in (lists of 0..3 entries, loops unwound): with hwloc_apply_diff_one replaced by a logging contract in which any call may be the failing one, hwloc_topology_diff_apply returns 0 after applying every entry once, in order, with the caller's flags; if entry N fails it returns -N with EINVAL after re-applying entries 1..N-1 with APPLY_REVERSE toggled and touches nothing after N. What applying one entry does to an object, build/apply/reverse inversion (so that the roll-back really restores the topology) and XML export/load of diffs are not decided.",
  note="Trusted: the logging contract of hwloc_apply_diff_one is an assumption about that callee (it is not enforced against its body)."),
 "C14": dict(
  category="proof", design_ref="DESIGN.md section 3 (C14)",
  technique=TECH + "loop-free full-domain harnesses for the best-of update steps; bounded harnesses (explicit small states, loops unwound) for get_best_target / get_best_initiator / register",
  text="Proved (loop-free, all 2^64 values): hwloc__update_best_target / _initiator mark found, replace the best only by a strictly better value (HIGHER_FIRST / LOWER_FIRST) and leave it unchanged on ties and worse values. BOUNDED stand-ins (labelled so in the evidence, not counted as proved): hwloc_memattr_get_best_target returns a maximal/minimal value among all stored targets of an attribute without initiators, the first target on ties, ENOENT when there is none, EINVAL for flags or an unknown id (<= 4 targets); hwloc_memattr_get_best_initiator likewise over the stored initiators of the target plus its EINVAL clauses (<= 4 initiators); hwloc_memattr_register requires exactly one of HIGHER_FIRST/LOWER_FIRST, a non-NULL unused name (EINVAL/EBUSY otherwise, nothing registered) and appends with the next id (<= 2 attributes, 2-char names). Not decided: set_value/get_value store-lookup semantics, initiator matching by cpuset, convenience attributes, local NUMA node queries, default nodeset, dup/XML/restrict.",
  note="Trusted: explicit states built by the harness (cache marked valid), cbmc's strcmp/strdup/realloc models."),
 "C15": dict(
  category="other", design_ref="DESIGN.md section 3 (C15)",
  technique=TECH + "bounded: plain harnesses on the real cpukinds.c with the bitmap dependency replaced by exact set operations on an 8-PU universe, loops unwound",
  text="BOUNDED stand-in (not counted as proved): hwloc_internal_cpukinds_register keeps the kinds a partition -- non-empty, pairwise disjoint, distinct cpuset objects, union = previous union plus the registered set, at most 2N+1 kinds inside the allocated array, unused slots carry no infos -- from every state with N <= 3 kinds satisfying that invariant, for every new cpuset, efficiency and flag word; empty cpuset / unknown flags give EINVAL and change nothing. hwloc_cpukinds_get_by_cpuset returns the index of the kind containing the set, EXDEV iff the set straddles kinds or is partly covered, ENOENT iff it touches none, EINVAL for flags/NULL/empty. hwloc_internal_cpukinds_restrict intersects every kind with the topology cpuset, removes emptied kinds, keeps order / cpuset objects / infos of the survivors and re-establishes the representation invariant register relies on (<= 3 kinds with <= 2 info pairs). The universe has one PU per Venn region of 3 disjoint kinds and a new set, so every emptiness pattern the code can distinguish is covered. Not decided: info accumulation across registrations, ranking/efficiencies (the ranking after a removal is cut out), dup/XML interleavings, the public wrapper hwloc_cpukinds_register.",
  note="Trusted: the 8-PU executable model of and/andnot/iszero/compare_inclusion/alloc/free (the real ones are verified under C03); bounded in the number of kinds (<= 3) and unwinding 9; allocation failures of hwloc_bitmap_alloc are not modelled; hwloc_internal_cpukinds_rank's body removed in the restrict job (assumed to write efficiencies only)."),
 "C19": dict(
  category="proof", design_ref="DESIGN.md section 3 (C19)",
  technique=TECH + "DFCC frame contracts assigns(errno) on the guarded entry points of topology.c / distances.c / diff.c (callees after the guard replaced by never-called contracts); loop-free plain harnesses on the real shmem.c",
  text="On an adopted (shared-memory) topology each of the nine guarded structure-modifying entry points (alloc/free/insert group object, insert misc object, restrict, distances remove / remove_by_depth / add_create, diff_apply) returns its error value with errno EPERM (insert_misc: or EINVAL when Misc is filtered out) and assigns nothing but errno: the frame condition is checked by DFCC on every store, and the callees behind the guard are proved unreachable. shmem.c (loop-free, complete for the stated request sequences): both allocator passes advance by the same 8-rounded amount for every request size; hwloc_shmem_topology_get_length is a page multiple covering the padded header plus every rounded block and rejects flags; hwloc_shmem_topology_write with that length keeps every block inside the mapping, maps (address,length), turns another address into EBUSY + munmap and refreshes the copy it wrote (not the source); hwloc_shmem_topology_adopt rejects unknown flags and any version / header length / address / length mismatch with EINVAL before mapping, maps PROT_READ, and turns another address into EBUSY + munmap. Not decided: equality of the adopted copy (dup over the tree), allow() on an adopted topology, modifying entry points that have no guard (memattrs, cpukinds, infos, release_remove), calloc zeroing of the shmem allocator.",
  note="Trusted: abstract bitmap model for the restrict prefix; assumed contract of hwloc_free_unlinked_object in insert_group_object; hwloc__topology_dup replaced by its allocation contract (same request sequence in both passes: assumed); system calls are nondeterministic stubs."),
 "C07": dict(
  category="proof", design_ref="DESIGN.md section 3 (C07)",
  technique=TECH + "loop-free full-domain harnesses for the two cursor steps of the synthetic exporter (the induction step of its snprintf contract); assume-guarantee chain of snprintf-style contracts over indexes / obj_attr / obj / memory_children / export_synthetic on explicit small object graphs; bounded harnesses for the parser helpers and structured descriptions up to the maximal depth",
  text="Export side. Proved (loop-free, all values, buffers 0..64): hwloc__export_synthetic_update_status and _add_char -- the only code that moves the exporter's cursor -- preserve the cursor invariant (0 <= remaining <= buflen, cursor == buffer + (buflen - remaining), remaining >= 1 whenever buflen > 0), add exactly the piece length / one to the would-be length and write only inside the remaining space: the induction step of 'hwloc_topology_export_synthetic obeys the snprintf length contract' for exports of any size. BOUNDED stand-ins (explicit small object graphs, loops unwound): hwloc__export_synthetic_indexes (levels of 1..4 objects, arbitrary os_index), _obj_attr, _obj, _memory_children (0..2 memory children, with memory-side caches, v1 and v2) and hwloc_topology_export_synthetic (Machine -> [level] -> 2 PUs) each satisfy the snprintf-style contract (nothing outside [buffer,buffer+buflen), NUL-terminated, return value = sum of the pieces + separators, EINVAL clauses) with every callee replaced by the contract it is itself checked against. Import side, BOUNDED: hwloc_synthetic_parse_memory_attr and hwloc_synthetic_parse_attrs on arbitrary strings of <= 5/6 bytes are memory safe and leave their cursors inside the string; hwloc_backend_synthetic_init on structured descriptions (typed and untyped levels, attached NUMA nodes, 1..127 levels) is memory safe, returns 0/-1 and an accepted description leaves a level table hwloc__look_synthetic can build (valid normal/NUMA types, PU last, cache depths); hwloc_synthetic_process_indexes on arbitrary index texts is memory safe. Not decided: hwloc__look_synthetic (object creation through the core), faithfulness of the built tree, the export/import round trip.",
  note="Trusted: snprintf C99 contract stub; hwloc_type_sscanf / hwloc_obj_type_snprintf / hwloc_obj_type_string contract stubs (the first two are checked under C11); strtoul-family stubs; getenv -> NULL; memmove as an element-wise copy of level entries; concrete shapes per job."),
 "C08": dict(
  category="proof", design_ref="DESIGN.md section 3 (C08/C02)",
  technique=TECH + "DFCC frame contract on hwloc_topology_restrict (error paths)",
  text="Last sentence of C08 only: for every flag word and every set, if the flags are unknown or inconsistent (BYNODESET with REMOVE_CPULESS, REMOVE_MEMLESS without BYNODESET) or the set does not intersect the allowed set selected by BYNODESET, hwloc_topology_restrict returns -1 with errno EINVAL and assigns nothing but errno (frame checked by DFCC over all memory); the intersects query is made exactly once on (set, allowed cpuset|nodeset). What a successful restrict removes is not applicable to this technique.",
  note="Trusted: hwloc_bitmap_intersects as a ghost fact (verified under C03)."),
 "C02": dict(
  category="proof", design_ref="DESIGN.md section 3 (C08/C02)",
  technique=TECH + "DFCC contract on hwloc_topology_allow (failure leaves the allowed sets unchanged)",
  text="One clause of C02 only: for every flag word, every NULL/non-NULL combination of cpuset and nodeset, hook present or not, whenever hwloc_topology_allow returns -1 both allowed sets are unchanged, unknown flags / not loaded / no INCLUDE_DISALLOWED give EINVAL, and the function never assigns anything but errno and the two allowed sets. Histories of modifying calls over the object tree are not applicable to this technique.",
  note="Trusted: abstract bitmaps (version counters), get_allowed_resources hook stub."),
}

NOT_APPLICABLE = {
 "C01": "global well-formedness of an unbounded, cyclically linked object tree produced by hwloc_topology_load through backends, files and ~3000 lines of insertion code: neither the state predicate (no inductive heap predicates in CBMC contracts) nor load as a contract subject is expressible (DESIGN.md section 6)",
 "C09": "every helper walks first_child/next_sibling/parent links of an unbounded tree and its spec quantifies over all objects; only the bitmap primitives are covered (C03)",
 "C17": "thread-safety: CBMC code contracts have no concurrency semantics",
 "C18": "snapshot discovery: file-system contents, component selection and fault sequences are outside any function contract",
 "C20": "command-line tools: process-level behaviour (argv, stdout) built on C01/C09",
}


def main():
    props = [json.loads(l) for l in open(os.path.join(HERE, "properties.jsonl"))]
    ids = [p["id"] for p in props]
    claimed = [i for i in ids if i in jobs.PROPS and i in CLAIMS]
    hooks = subprocess.run(["git", "-C", "/repo", "log", "--format=%h %s"], capture_output=True, text=True).stdout.strip().split("\n")
    hook_commits = [l.split()[0] for l in hooks if "verif hooks" in l]
    checks = []
    for i in claimed:
        c = CLAIMS[i]
        checks.append({
            "property_id": i,
            "quick_cmd": "./check %s --tier quick" % i,
            "thorough_cmd": "./check %s --tier thorough" % i,
            "evidence_file": "/verif/evidence/%s.json" % i,
            "replay_cmd_template": "./check %s --replay {path}" % i,
            "engine": "cbmc-contracts",
            "technique": c["technique"],
            "level_claimed": {"category": c["category"], "text": c["text"], "design_ref": c["design_ref"]},
            "level_note": c["note"],
        })
    m = {
        "version": 1,
        "setup_cmd": "true",
        "hooks": {
            "guard": "HWLOC_VERIF",
            "enable": "checks compile driver TUs that #include the real /repo/hwloc/*.c with goto-cc -DHWLOC_VERIF; the HWLOC_VERIF_LOOP(tag) anchors (include/private/verif.h) then expand to CBMC loop contracts defined in /verif/contracts/*.loops.h; nothing else in /repo depends on the guard",
            "baseline_off_cmd": "cd /repo && make -j16 >/dev/null 2>&1 && make check",
            "source_commits": hook_commits,
            "add_only": False,
        },
        "engines": [{
            "name": "cbmc-contracts", "path": "/verif/check", "serves_properties": claimed,
            "kind_free_text": "CBMC 6.11 code contracts (goto-instrument --dfcc --enforce-contract / --replace-call-with-contract / --apply-loop-contracts) on driver TUs that #include the real source files; SAT (minisat2) and SMT (z3 5.1) back ends; native replay of counterexamples against the real code",
        }],
        "checks": checks,
        "notes": "See DESIGN.md. ./check exit codes: 0 every obligation discharged, 1 VIOLATION line printed, 2 undecided (time-out, tool error, proof lost, vacuous run). add_only is false because anchors placed on a line that ends with '{' insert a token into that line; without -DHWLOC_VERIF every anchor expands to nothing.",
        "not_applicable": [{"property_id": i, "reason": NOT_APPLICABLE.get(i, "not claimed")} for i in ids if i not in claimed],
    }
    json.dump(m, open(os.path.join(HERE, "MANIFEST.json"), "w"), indent=1)
    print("claimed:", claimed)


main()
