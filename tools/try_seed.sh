#!/bin/bash
# try_seed.sh <seed_dir> <property> [only-regex] [tier]: apply a seeded change to /repo, run the check, undo it.
sd=$(readlink -f $1); prop=$2; only=$3; tier=${4:-quick}
cd /verif
git -C /repo diff --quiet || { echo "/repo is dirty, refusing"; exit 2; }
cp -f evidence/$prop.json /tmp/evidence_$prop.bak 2>/dev/null
git -C /repo apply "$sd/patch.diff" 2>/dev/null || git -C /repo apply --3way "$sd/patch.diff" || { git -C /repo reset -q --hard; exit 2; }
if [ -n "$only" ]; then ./check $prop --tier $tier --only "$only" > $sd/check.out 2> $sd/check.err; else ./check $prop --tier $tier > $sd/check.out 2> $sd/check.err; fi
rc=$?
git -C /repo reset -q --hard; make -C /repo/hwloc -j16 >/dev/null 2>&1
cp -f evidence/$prop.json $sd/evidence.with_patch.json 2>/dev/null; cp -f /tmp/evidence_$prop.bak evidence/$prop.json 2>/dev/null
echo "== $(basename $sd): exit $rc"; grep "VIOLATION\|PROOF-LOST\|UNDECIDED\|KNOWN" $sd/check.out | cut -c1-250; tail -1 $sd/check.out
grep "^  [a-z_0-9]*: " $sd/check.err | cut -c1-300 | head -5
