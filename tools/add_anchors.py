#!/usr/bin/env python3
"""One-off helper used to produce the guarded hook commits in /repo.

Inserts one `HWLOC_VERIF_LOOP(<function>_<ordinal>)` anchor after the closing
parenthesis of every for/while loop header of the given C file (do-while loops
and loops inside #define bodies are skipped), and adds
`#include "private/verif.h"` after the last top-of-file #include "private/..." line.
With -DHWLOC_VERIF the anchor expands to HWLOC_VERIF_LOOP_<tag>, which the
verification drivers define as a CBMC loop contract (or as nothing); without
the define it expands to nothing.  Not used at check time.

usage: add_anchors.py file.c [only-function ...]
"""
import re, sys

def main():
    path = sys.argv[1]
    only = set(sys.argv[2:])
    src = open(path).read()
    if 'HWLOC_VERIF_LOOP' in src and not only:
        sys.exit("already anchored")
    out = []
    i = 0
    n = len(src)
    # pass 1: function spans (name, start_of_body, end_of_body) by brace matching at column 0
    funcs = []
    for m in re.finditer(r'^\{', src, re.M):
        # name: identifier before first '(' of the declarator that precedes
        head = src[:m.start()]
        k = head.rfind(')')
        if k < 0: continue
        # find matching '('
        depth = 0; j = k
        while j >= 0:
            if head[j] == ')': depth += 1
            elif head[j] == '(':
                depth -= 1
                if depth == 0: break
            j -= 1
        mm = re.search(r'(\w+)\s*$', head[:j])
        if not mm: continue
        name = mm.group(1)
        # end of body: next line starting with '}'
        e = src.find('\n}', m.start())
        funcs.append((name, m.start(), e))
    def func_at(pos):
        for name, s, e in funcs:
            if s <= pos <= e: return name
        return None
    counters = {}
    inserts = []  # (pos, text)
    for m in re.finditer(r'\b(for|while)\s*\(', src):
        pos = m.start()
        # skip preprocessor lines / comments (crude): line starts with '#' or contains '\\' continuation before
        ls = src.rfind('\n', 0, pos) + 1
        line = src[ls:src.find('\n', pos)]
        if line.lstrip().startswith('#') or line.rstrip().endswith('\\'): continue
        if line.lstrip().startswith('*') or line.lstrip().startswith('/*') or '//' in src[ls:pos]: continue
        if '/*' in src[ls:pos] and '*/' not in src[ls:pos]: continue
        # do-while tail: '}' precedes while
        f = func_at(pos)
        if f is None: continue
        # match parens
        j = m.end() - 1; depth = 0
        while j < n:
            c = src[j]
            if c == '(': depth += 1
            elif c == ')':
                depth -= 1
                if depth == 0: break
            j += 1
        # do-while tail without brace: "while (...);" directly
        rest = src[j+1:src.find('\n', j)]
        if m.group(1) == 'while' and rest.strip().startswith(';') and re.search(r'\}\s*$', src[:pos]):
            continue
        counters[f] = counters.get(f, 0) + 1
        if only and f not in only: continue
        tag = "%s_%d" % (f, counters[f])
        if 'HWLOC_VERIF_LOOP' in rest: continue
        if rest.strip() == '':
            indent = re.match(r'\s*', line).group(0)
            inserts.append((j+1, "\n%s    HWLOC_VERIF_LOOP(%s)" % (indent, tag)))
        else:
            inserts.append((j+1, " HWLOC_VERIF_LOOP(%s)" % tag))
    res = []
    last = 0
    for pos, text in sorted(inserts):
        res.append(src[last:pos]); res.append(text); last = pos
    res.append(src[last:])
    new = ''.join(res)
    if '#include "private/verif.h"' not in new:
        incs = list(re.finditer(r'^#include "private/[^"]+"\n', new, re.M))
        # only includes before the first function
        first_fn = funcs[0][1] if funcs else len(new)
        incs = [x for x in incs if x.end() < first_fn]
        at = incs[-1].end()
        new = new[:at] + '#include "private/verif.h"\n' + new[at:]
    open(path, 'w').write(new)
    print("%d anchors in %d functions" % (len(inserts), len(counters)))

main()
