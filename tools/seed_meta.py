#!/usr/bin/env python3
"""seed_meta.py [seed ids...]: (re)write seeded/<id>/meta.json from the records left by tools/confirm_seed.sh and
tools/try_seed_wt.sh (check.out / check.err / check.rc).  Does not run anything."""
import json, os, re, sys
HERE = os.path.dirname(os.path.dirname(os.path.abspath(__file__)))
def main():
    ids = sys.argv[1:] or sorted(os.listdir(os.path.join(HERE, "seeded")))
    for d in ids:
        sd = os.path.join(HERE, "seeded", d)
        if not os.path.isdir(sd) or not os.path.exists(os.path.join(sd, "patch.diff")):
            continue
        prop = d.split("-")[0]
        out = open(os.path.join(sd, "check.out")).read() if os.path.exists(os.path.join(sd, "check.out")) else None
        conf = json.load(open(os.path.join(sd, "confirm.json"))) if os.path.exists(os.path.join(sd, "confirm.json")) else None
        readme = open(os.path.join(sd, "README.txt")).read() if os.path.exists(os.path.join(sd, "README.txt")) else ""
        old = json.load(open(os.path.join(sd, "meta.json"))) if os.path.exists(os.path.join(sd, "meta.json")) else {}
        meta = dict(old)
        meta.update({"seed": d, "property": prop, "source": "independent sub-agent given only the property text and a scratch worktree",
                     "what_it_needs_to_manifest": " ".join(readme.split())[:900], "confirmed_by_me": conf,
                     "what_i_ran": {"confirm": "tools/confirm_seed.sh seeded/%s <scratch worktree>  (apply, build, full make check, demo with/without)" % d,
                                    "check": "tools/try_seed_wt.sh seeded/%s %s   (scratch worktree of /repo HEAD + patch, ./check %s --tier quick with VERIF_REPO pointing at it)" % (d, prop, prop)}})
        if out is None:
            meta.update({"check_exit_code": None, "detected": False, "note": "property not claimed (MANIFEST.not_applicable): no check to run" })
        else:
            viol = re.findall(r"VIOLATION property=\S+ replay=(\S+)( no-failing-input-found)?", out)
            und = re.findall(r"^(?:PROOF-LOST|UNDECIDED)[^\n]*", out, re.M)
            rcf = os.path.join(sd, "check.rc")
            rc = int(open(rcf).read().strip()) if os.path.exists(rcf) else (1 if viol else (2 if und else 0))
            meta.update({"check_exit_code": rc, "detected": rc == 1,
                         "refuted_obligations": [os.path.basename(v[0]).replace(".json", "") for v in viol],
                         "native_replay_confirmed": any(not v[1] for v in viol), "undecided": und[:4]})
        json.dump(meta, open(os.path.join(sd, "meta.json"), "w"), indent=1)
        print(d, meta.get("check_exit_code"), meta.get("detected"), (meta.get("refuted_obligations") or [])[:2])
main()
