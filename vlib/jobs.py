"""Job tables: which verifier runs decide which property (DESIGN.md sections 2-3)."""
from .runner import Job

PROPS = {}

# ------------------------------------------------------------------ C03 bitmap.c
def _bm(fn, lis=0, cost=10, **kw):
    return Job(name=fn, driver="bitmap.drv.c", entry="h_" + fn, enforce=fn, min_lis=lis, cost=cost,
               family="bitmap", **kw)

C03 = [
    _bm("hwloc_bitmap_realloc_by_ulongs", lis=3, cost=15),
    _bm("hwloc_bitmap__zero", lis=2, cost=2),
    _bm("hwloc_bitmap__fill", lis=2, cost=2),
    _bm("hwloc_bitmap_alloc", cost=1),
    _bm("hwloc_bitmap_alloc_full", cost=1),
    _bm("hwloc_bitmap_free", cost=5, min_post=0),
    _bm("hwloc_bitmap_dup", cost=1),
    _bm("hwloc_bitmap_copy", cost=36),
    _bm("hwloc_bitmap_zero", lis=2, cost=12),
    _bm("hwloc_bitmap_fill", lis=2, cost=12),
    _bm("hwloc_bitmap_only", lis=2, cost=22),
    _bm("hwloc_bitmap_allbut", lis=2, cost=22),
    _bm("hwloc_bitmap_from_ulong", cost=20),
    _bm("hwloc_bitmap_from_ith_ulong", lis=3, cost=22),
    _bm("hwloc_bitmap_from_ulongs", lis=2, cost=20),
    _bm("hwloc_bitmap_to_ulong", cost=1),
    _bm("hwloc_bitmap_to_ith_ulong", cost=1),
    _bm("hwloc_bitmap_to_ulongs", lis=2, cost=1),
    _bm("hwloc_bitmap_nr_ulongs", lis=2, cost=1),
    _bm("hwloc_bitmap_set", lis=3, cost=15),
    _bm("hwloc_bitmap_clr", lis=3, cost=24),
    _bm("hwloc_bitmap_set_ith_ulong", lis=3, cost=24),
    _bm("hwloc_bitmap_set_range", lis=10, cost=200, split=3),
    _bm("hwloc_bitmap_clr_range", lis=10, cost=200, split=3),
    _bm("hwloc_bitmap_isset", cost=1),
    _bm("hwloc_bitmap_iszero", lis=2, cost=1),
    _bm("hwloc_bitmap_isfull", lis=2, cost=1),
    _bm("hwloc_bitmap_isequal", lis=6, cost=2),
    _bm("hwloc_bitmap_intersects", lis=6, cost=2),
    _bm("hwloc_bitmap_isincluded", lis=6, cost=2),
    _bm("hwloc_bitmap_or", lis=12, cost=260, split=3),
    _bm("hwloc_bitmap_and", lis=12, cost=280, split=3),
    _bm("hwloc_bitmap_andnot", lis=12, cost=270, split=3),
    _bm("hwloc_bitmap_xor", lis=12, cost=210, split=3),
    _bm("hwloc_bitmap_not", lis=3, cost=25),
    _bm("hwloc_bitmap_first", lis=2, cost=1),
    _bm("hwloc_bitmap_first_unset", lis=2, cost=1),
    _bm("hwloc_bitmap_last", lis=2, cost=1),
    _bm("hwloc_bitmap_last_unset", lis=2, cost=1),
    _bm("hwloc_bitmap_next", lis=2, cost=2),
    _bm("hwloc_bitmap_next_unset", lis=2, cost=2),
    _bm("hwloc_bitmap_singlify", lis=10, cost=25),
    _bm("hwloc_bitmap_weight", lis=3, cost=2),
    _bm("hwloc_bitmap_compare", lis=6, cost=5),
    _bm("hwloc_bitmap_compare_inclusion", lis=10, cost=300, split=8),
]

# quantified-hypothesis clauses (bitmap.quant.h): witness directions of the boolean queries and the
# ordering functions.  SAT needs a constant quantifier bound QB (bitmaps <= QB words): bounded stand-in.
def _bq(fn, qb=32, lis=0, cost=60, defs=None, **kw):
    d = {"QB": qb}; d.update(defs or {})
    return Job(name=fn + "__q.sat", driver="bitmap.drv.c", entry="hq_" + fn, enforce=fn + "/" + fn + "__q",
               min_lis=lis, cost=cost, family="bitmap", defines=d, label="bounded",
               note="quantified hypothesis expanded for bitmaps <= %d words (SAT); loops closed by invariants" % qb, **kw)

C03 += [
    _bq("hwloc_bitmap_iszero", lis=2, cost=2),
    _bq("hwloc_bitmap_isfull", lis=2, cost=2),
    _bq("hwloc_bitmap_isequal", lis=6),
    _bq("hwloc_bitmap_intersects", lis=6),
    _bq("hwloc_bitmap_isincluded", lis=6),
    _bq("hwloc_bitmap_compare", lis=6, defs={"Q_COMPARE": None}),
    _bq("hwloc_bitmap_compare_first", lis=3, cost=250, qb=16, defs={"Q_COMPARE_FIRST": None}, split=2),
    _bq("hwloc_bitmap_singlify", lis=10, cost=90, defs={"Q_SINGLIFY": None}),
    _bq("hwloc_bitmap_compare_inclusion", lis=10, cost=90, qb=16, defs={"Q_CINC": None}, split=8),
]

# the same quantified contracts with no quantifier bound on the SMT back end (z3 5.1): proof.
# optional=True: a time-out of the SMT solver leaves the clause at its bounded stand-in and is
# reported in the evidence, it never fails the check (an SMT *refutation* still counts).
def _bz(fn, lis=0, cost=60, defs=None, timeout=600, tiers=("quick", "thorough"), **kw):
    return Job(name=fn + "__q.z3", driver="bitmap.drv.c", entry="hq_" + fn, enforce=fn + "/" + fn + "__q",
               min_lis=lis, cost=cost, family="bitmap", defines=dict(defs or {}), label="proof", solver="z3",
               optional=True, timeout=timeout, tiers=tiers, canary_from=fn + "__q.sat",
               note="quantified hypothesis, unbounded (z3 5.1)", **kw)

C03 += [
    _bz("hwloc_bitmap_iszero", lis=2, cost=5, timeout=300),
    _bz("hwloc_bitmap_isfull", lis=2, cost=5, timeout=300),
    _bz("hwloc_bitmap_isequal", lis=6, cost=70),
    _bz("hwloc_bitmap_intersects", lis=6, cost=35),
    _bz("hwloc_bitmap_isincluded", lis=6, cost=30),
    _bz("hwloc_bitmap_singlify", lis=10, cost=100, defs={"Q_SINGLIFY": None}),
    _bz("hwloc_bitmap_compare", lis=6, cost=400, defs={"Q_COMPARE": None}, timeout=1800, tiers=("thorough",)),
]
PROPS["C03"] = C03
