"""Job tables: which verifier runs decide which property (DESIGN.md sections 2-3)."""
from .runner import Job

PROPS = {}

# ------------------------------------------------------------------ C03 bitmap.c
def _bm(fn, lis=0, cost=10, **kw):
    return Job(name=fn, driver="bitmap.drv.c", entry="h_" + fn, enforce=fn, min_lis=lis, cost=cost,
               family="bitmap", **kw)

C03 = [
    _bm("hwloc_bitmap_realloc_by_ulongs", lis=3, cost=15),
    _bm("hwloc_bitmap__zero", lis=2, cost=2),
    _bm("hwloc_bitmap__fill", lis=2, cost=2),
    _bm("hwloc_bitmap_alloc", cost=1),
    _bm("hwloc_bitmap_alloc_full", cost=1),
    _bm("hwloc_bitmap_free", cost=5, min_post=0),
    _bm("hwloc_bitmap_dup", cost=1),
    _bm("hwloc_bitmap_copy", cost=36),
    _bm("hwloc_bitmap_zero", lis=2, cost=12),
    _bm("hwloc_bitmap_fill", lis=2, cost=12),
    _bm("hwloc_bitmap_only", lis=2, cost=22),
    _bm("hwloc_bitmap_allbut", lis=2, cost=22),
    _bm("hwloc_bitmap_from_ulong", cost=20),
    _bm("hwloc_bitmap_from_ith_ulong", lis=3, cost=22),
    _bm("hwloc_bitmap_from_ulongs", lis=2, cost=20),
    _bm("hwloc_bitmap_to_ulong", cost=1),
    _bm("hwloc_bitmap_to_ith_ulong", cost=1),
    _bm("hwloc_bitmap_to_ulongs", lis=2, cost=1),
    _bm("hwloc_bitmap_nr_ulongs", lis=2, cost=1),
    _bm("hwloc_bitmap_set", lis=3, cost=15),
    _bm("hwloc_bitmap_clr", lis=3, cost=24),
    _bm("hwloc_bitmap_set_ith_ulong", lis=3, cost=24),
    _bm("hwloc_bitmap_set_range", lis=10, cost=200),
    _bm("hwloc_bitmap_clr_range", lis=10, cost=200),
    _bm("hwloc_bitmap_isset", cost=1),
    _bm("hwloc_bitmap_iszero", lis=2, cost=1),
    _bm("hwloc_bitmap_isfull", lis=2, cost=1),
    _bm("hwloc_bitmap_isequal", lis=6, cost=2),
    _bm("hwloc_bitmap_intersects", lis=6, cost=2),
    _bm("hwloc_bitmap_isincluded", lis=6, cost=2),
    _bm("hwloc_bitmap_or", lis=12, cost=260),
    _bm("hwloc_bitmap_and", lis=12, cost=280),
    _bm("hwloc_bitmap_andnot", lis=12, cost=270),
    _bm("hwloc_bitmap_xor", lis=12, cost=210),
    _bm("hwloc_bitmap_not", lis=3, cost=25),
    _bm("hwloc_bitmap_first", lis=2, cost=1),
    _bm("hwloc_bitmap_first_unset", lis=2, cost=1),
    _bm("hwloc_bitmap_last", lis=2, cost=1),
    _bm("hwloc_bitmap_last_unset", lis=2, cost=1),
    _bm("hwloc_bitmap_next", lis=2, cost=2),
    _bm("hwloc_bitmap_next_unset", lis=2, cost=2),
    _bm("hwloc_bitmap_singlify", lis=10, cost=25),
    _bm("hwloc_bitmap_weight", lis=3, cost=2),
    _bm("hwloc_bitmap_compare", lis=6, cost=5),
    _bm("hwloc_bitmap_compare_inclusion", lis=10, cost=300, split=8),
]

# quantified-hypothesis clauses (bitmap.quant.h): witness directions of the boolean queries and the
# ordering functions.  SAT needs a constant quantifier bound QB (bitmaps <= QB words): bounded stand-in.
def _bq(fn, qb=32, lis=0, cost=60, defs=None, **kw):
    d = {"QB": qb}; d.update(defs or {})
    return Job(name=fn + "__q.sat", driver="bitmap.drv.c", entry="hq_" + fn, enforce=fn + "/" + fn + "__q",
               min_lis=lis, cost=cost, family="bitmap", defines=d, label="bounded", tdefs={"QB": 2 * qb}, ttimeout=3600,
               note="quantified hypothesis expanded for bitmaps <= %d words (SAT); loops closed by invariants" % qb, **kw)

C03 += [
    _bq("hwloc_bitmap_iszero", lis=2, cost=2),
    _bq("hwloc_bitmap_isfull", lis=2, cost=2),
    _bq("hwloc_bitmap_isequal", lis=6),
    _bq("hwloc_bitmap_intersects", lis=6),
    _bq("hwloc_bitmap_isincluded", lis=6),
    _bq("hwloc_bitmap_compare", lis=6, defs={"Q_COMPARE": None}),
    _bq("hwloc_bitmap_compare_first", lis=3, cost=250, qb=16, defs={"Q_COMPARE_FIRST": None}, split=2),
    _bq("hwloc_bitmap_singlify", lis=10, cost=90, defs={"Q_SINGLIFY": None}),
    _bq("hwloc_bitmap_compare_inclusion", lis=10, cost=90, qb=16, defs={"Q_CINC": None}, split=8),
]

# the same quantified contracts with no quantifier bound on the SMT back end (z3 5.1): proof.
# optional=True: a time-out of the SMT solver leaves the clause at its bounded stand-in and is
# reported in the evidence, it never fails the check (an SMT *refutation* still counts).
def _bz(fn, lis=0, cost=60, defs=None, timeout=600, tiers=("quick", "thorough"), **kw):
    return Job(name=fn + "__q.z3", driver="bitmap.drv.c", entry="hq_" + fn, enforce=fn + "/" + fn + "__q",
               min_lis=lis, cost=cost, family="bitmap", defines=dict(defs or {}), label="proof", solver="z3",
               optional=True, timeout=timeout, tiers=tiers, canary_from=fn + "__q.sat",
               note="quantified hypothesis, unbounded (z3 5.1)", **kw)

C03 += [
    _bz("hwloc_bitmap_iszero", lis=2, cost=5, timeout=300),
    _bz("hwloc_bitmap_isfull", lis=2, cost=5, timeout=300),
    _bz("hwloc_bitmap_isequal", lis=6, cost=70),
    _bz("hwloc_bitmap_intersects", lis=6, cost=35),
    _bz("hwloc_bitmap_isincluded", lis=6, cost=30),
    _bz("hwloc_bitmap_singlify", lis=10, cost=100, defs={"Q_SINGLIFY": None}),
    _bz("hwloc_bitmap_compare", lis=6, cost=400, defs={"Q_COMPARE": None}, timeout=1800, tiers=("thorough",)),
    _bz("hwloc_bitmap_compare_inclusion", lis=10, cost=900, defs={"Q_CINC": None}, timeout=3600, tiers=("thorough",)),
    _bz("hwloc_bitmap_compare_first", lis=3, cost=900, defs={"Q_COMPARE_FIRST": None}, timeout=3600, tiers=("thorough",)),
]
for _c in range(1, 7):      # the same contract, one hypothesis per z3 run
    _j = _bz("hwloc_bitmap_compare_first", lis=3, cost=600, defs={"Q_COMPARE_FIRST": None, "Q_CASE": _c}, timeout=2400, tiers=("thorough",))
    _j.name = "hwloc_bitmap_compare_first__q.case%d.z3" % _c
    C03.append(_j)

C03 += [
    Job(name="hwloc_bitmap_weight__q.unwind", driver="bitmap.drv.c", entry="hq_hwloc_bitmap_weight",
        enforce="hwloc_bitmap_weight/hwloc_bitmap_weight__q", defines={"VERIF_NO_LOOP_CONTRACTS": None}, unwind=6, loop_contracts=False,
        label="bounded", family="bitmap", cost=5, fallback=False, note="exact weight, bitmaps <= 4 words, loop unwound 6 times with unwinding assertion"),
    Job(name="hwloc_bitmap_free_null", driver="bitmap.drv.c", entry="h_hwloc_bitmap_free_null", mode="plain", min_post=0,
        family="bitmap", cost=1, note="hwloc_bitmap_free(NULL) is a no-op (loop-free, complete)"),
    Job(name="hwloc_flsl", driver="bitmap.drv.c", entry="hp_hwloc_flsl", mode="plain", min_post=0, family="bitmap", cost=2,
        note="hwloc_flsl_manual against a bit-level spec over all 2^64 words (loop-free, complete)"),
    Job(name="hwloc_ffsl", driver="bitmap.drv.c", entry="hp_hwloc_ffsl", mode="plain", min_post=0, family="bitmap", cost=2,
        note="hwloc_ffsl (__builtin_ffsl as modelled by cbmc) against a bit-level spec over all 2^64 words"),
    Job(name="hwloc_weight_long", driver="bitmap.drv.c", entry="hp_hwloc_weight_long", mode="plain", min_post=0, unwind=65,
        family="bitmap", cost=5, note="hwloc_weight_long against the 64-iteration bit count (spec loop unwound completely)"),
]
PROPS["C03"] = C03


# ------------------------------------------------------------------ C11 traversal.c / topology.c
def _tp(name, entry, unwind, cost=20, label="proof", note="", defs=None, driver="traversal.drv.c", **kw):
    # NULL+0 (tmp += res with string==NULL, size==0, res clamped to 0) is the snprintf(NULL,0) idiom of these
    # functions; cbmc's pointer-overflow check rejects any arithmetic on NULL, so it is off for this family.
    return Job(name=name, driver=driver, entry=entry, mode="plain", unwind=unwind, min_post=0, cost=cost,
               label=label, family="traversal", defines=dict(defs or {}), note=note, tdefs=({"BUFMAX": 128} if driver == "traversal.drv.c" else None), ttimeout=3600,
               drop_checks=("--pointer-overflow-check",), **kw)

C11 = [
    _tp("hwloc__osdev_type_snprintf_short", "hp_hwloc__osdev_type_snprintf_short", 2, cost=5, plain_loop_contracts=True, min_lis=0,
        note="snprintf contract for all ostype words and any names table, buffers 0..64 (NULL when 0); loop closed by invariant + decreases"),
    _tp("hwloc__osdev_type_snprintf_normal", "hp_hwloc__osdev_type_snprintf_normal", 2, cost=30, plain_loop_contracts=True,
        fallback_plain={"defines": {"BUFMAX": 8, "PIECE_MAX": 16}, "unwind": 9},
        note="snprintf contract + termination (decreases) for ALL ostype words (incl. unknown bits) and any names table, buffers 0..64; loop closed by the cursor-triple invariant"),
    _tp("hwloc_obj_type_snprintf.other", "hp_hwloc_obj_type_snprintf", 9, cost=20, defs={"TYPE_SNPRINTF_NOT_OSDEV": None},
        note="snprintf contract for every type value except OS_DEVICE (incl. invalid ones), every attribute union content, every flag word, buffers 0..64"),
    _tp("hwloc_obj_type_snprintf.osdev", "hp_hwloc_obj_type_snprintf", 2, cost=30, plain_loop_contracts=True, defs={"TYPE_SNPRINTF_OSDEV_ONLY": None},
        fallback_plain={"defines": {"BUFMAX": 8, "PIECE_MAX": 16}, "unwind": 9},
        note="snprintf contract + termination for OS devices: every osdev.types word, every flag word, buffers 0..64"),
    _tp("hwloc_obj_attr_snprintf", "hp_hwloc_obj_attr_snprintf", 6, cost=60, plain_loop_contracts=True,
        fallback_plain={"defines": {"BUFMAX": 8, "PIECE_MAX": 16, "INFOMAX": 2}, "unwind": 6},
        note="snprintf contract + termination for every type, attribute content, flag word, separator (<=2 chars), <= 8 info pairs (strings <= 3 chars), buffers 0..64; info loop closed by the cursor-triple invariant; strchr of libc as modelled by cbmc (unwound 6 times)"),
    _tp("hwloc_type_sscanf", "hp_hwloc_type_sscanf", 20, cost=120, label="bounded", defs={"TLEN": 4}, timeout=900,
        note="arbitrary NUL-terminated string of <= 4 bytes (all byte values), attributes requested or not: returns 0/-1, memory safe, accepted strings give a valid type; strtol contract stub, strncasecmp model; loops unwound 20 times"),
    _tp("hwloc_compare_types", "hp_hwloc_compare_types", 2, cost=5, driver="topology.drv.c",
        note="antisymmetry, Machine highest, PU deepest, kind predicates vs documented kinds, transitivity, order tables are inverse permutations: all type triples (loop-free, complete)"),
]
C11 += [
    _tp("names_roundtrip", "hp_names_roundtrip", 24, cost=20, defs={"STRTOL_EXACT": None},
        note="print/parse round trip of the OS-device names table (finite, concrete texts: complete): for each of the 7 type bits the short and the long name, alone and as the tail \"<name>]\" of a printed OS[...] text, parse back to exactly that bit"),
] + [
    _tp("type_string_roundtrip.t%d" % t, "hp_type_string_roundtrip", 24, cost=5, defs={"STRTOL_EXACT": None, "TS_TYPE": t},
        note="hwloc_type_sscanf(hwloc_obj_type_string(%d)) returns 0 and the same type (concrete text: complete for this type)" % t)
    for t in range(0, 20)
]
PROPS["C11"] = C11


# ------------------------------------------------------------------ C10 bind.c
def _bd(fn, cost=3):
    return Job(name=fn, driver="bind.drv.c", entry="hp_" + fn, mode="plain", unwind=2, min_post=0, cost=cost, family="bind",
               note="all flag words, policies, hook tables and set relations (loop-free, complete)")

C10 = [_bd(f) for f in (
    "hwloc_set_cpubind", "hwloc_set_proc_cpubind", "hwloc_set_thread_cpubind",
    "hwloc_get_cpubind", "hwloc_get_proc_cpubind", "hwloc_get_thread_cpubind",
    "hwloc_get_last_cpu_location", "hwloc_get_proc_last_cpu_location",
    "hwloc_set_membind", "hwloc_set_proc_membind", "hwloc_set_area_membind",
    "hwloc_get_membind", "hwloc_get_proc_membind", "hwloc_get_area_membind", "hwloc_get_area_memlocation",
    "hwloc_alloc_membind", "hwloc_dummy_hooks")]
PROPS["C10"] = C10


# ------------------------------------------------------------------ guards: C19 (EPERM), C08 (EINVAL clause), C02 (allow clause)
def _gd(fn, drv, replace=(), cost=5, **kw):
    return Job(name=fn, driver="guard.%s.drv.c" % drv, entry="h_" + fn, enforce=fn, replace=replace, cost=cost, family="guard",
               fallback=False, **kw)

GUARD_EPERM = [
    _gd("hwloc_topology_alloc_group_object", "topology", replace=["hwloc_alloc_setup_object"], note="adopted topology => NULL/EPERM, frame = {errno}"),
    _gd("hwloc_topology_free_group_object", "topology", replace=["hwloc_free_unlinked_object"], note="adopted topology => -1/EPERM, frame = {errno}"),
    _gd("hwloc_topology_insert_group_object", "topology", replace=["hwloc_free_unlinked_object", "hwloc__insert_object_by_cpuset", "hwloc__reconnect", "hwloc_obj_add_children_sets"], unwind=1,
        note="adopted topology => NULL/EPERM, frame = {errno} (+ the never-inserted object is destroyed: assumed contract of hwloc_free_unlinked_object)"),
    _gd("hwloc_topology_insert_misc_object", "topology", replace=["hwloc_alloc_setup_object", "hwloc_insert_object_by_parent", "hwloc_topology_reconnect"], unwind=1, note="adopted topology => NULL/EPERM, frame = {errno}"),
    _gd("hwloc_distances_remove", "distances", replace=["hwloc_internal_distances_destroy"], note="adopted topology => -1/EPERM, frame = {errno}"),
    _gd("hwloc_distances_remove_by_depth", "distances", unwind=1, note="adopted topology => -1/EPERM, frame = {errno}"),
    _gd("hwloc_distances_add_create", "distances", replace=["hwloc_backend_distances_add_create"], note="adopted topology => NULL/EPERM; invalid kind word (unknown bits, several FROM_ or several MEANS_ bits; all 2^64 words) => NULL/EINVAL; frame = {errno}, backend never reached", min_post=3),
    _gd("hwloc_topology_diff_apply", "diff", replace=["hwloc_apply_diff_one"], unwind=1, note="adopted topology => -1/EPERM; unknown apply flags => -1/EINVAL; frame = {errno}, no diff entry applied", min_post=3),
]
RESTRICT_GUARD = _gd("hwloc_topology_restrict", "topology", min_post=4,
    note="adopted => EPERM; unknown/inconsistent flags or non-intersecting set => EINVAL; in both cases frame = {errno}; the intersects query is made on (set, allowed set selected by BYNODESET)")
ALLOW_GUARD = _gd("hwloc_topology_allow", "topology", min_post=4,
    note="any failure leaves both allowed sets unchanged; frame = {errno, the two allowed sets}; all flag words, all NULL/non-NULL set combinations, hook present or not")

def _sh(name, unwind=5, cost=10, **kw):
    return Job(name=name, driver="shmem.drv.c", entry="hp_" + name, mode="plain", unwind=unwind, min_post=0, cost=cost, family="shmem", **kw)

SHMEM = [
    _sh("tma_allocators_agree", note="for every request size (<= 4096) tma_get_length_malloc and tma_shmem_malloc advance by the same 8-rounded amount (induction step of 'length suffices'; loop-free)"),
    _sh("hwloc_shmem_topology_get_length", note="flags rejected; result is a page multiple covering the padded header plus every rounded block of ANY request sequence of 3 blocks (dup replaced by its allocation contract); page sizes 4K/8K/16K/64K"),
    _sh("hwloc_shmem_topology_write_fits", cost=60, note="write() with the length from get_length(): every block dup allocates lies inside [mapping+header, mapping+length); mmap asked for (address,length); other address => EBUSY + munmap; same request sequence in both passes (assumed), 3 blocks <= 2048 bytes"),
    _sh("hwloc_shmem_topology_adopt_header", unwind=26, cost=20, note="adopt(): unknown flags, version / header length / address / length mismatch => -1/EINVAL without mapping; mapping is PROT_READ; other address => EBUSY + munmap; arbitrary 24 header bytes"),
]
PROPS["C19"] = GUARD_EPERM + [RESTRICT_GUARD] + SHMEM
PROPS["C08"] = [RESTRICT_GUARD]
# ------------------------------------------------------------------ C13 distances.c (plain harnesses on explicit small states)
def _ds(name, nb, unwind, nd=3, cost=30, defs=None, tdefs=None, **kw):
    d = {"NB": nb, "ND": nd}; d.update(defs or {})
    return Job(name="%s.n%d" % (name, nb), driver="distances.drv.c", entry="hp_" + name, mode="plain", unwind=unwind, min_post=0, cost=cost,
               family="distances", label="bounded", defines=d, tdefs=tdefs, **kw)

_T = "hwloc_distances_transform_"
C13X = []
for _n in (2, 3, 4):
    _u = _n * _n + 1 if _n * _n + 1 > 11 else 11     # strcmp on subtypes of <= 9 characters: 10 iterations
    C13X += [
        _ds(_T + "dispatch", _n, _u, cost=50, note="non-zero flags, non-NULL attribute, unknown transformation => -1/EINVAL and the structure (objects, values, kind, nbobjs) is untouched; matrices of exactly %d objects (NULL entries allowed), any subtype strings <= 9 chars, any values" % _n),
        _ds(_T + "remove_null", _n, _u, cost=10, note="REMOVE_NULL keeps exactly the non-NULL objects in order with the exact sub-matrix, < 2 left => EINVAL and nothing changes, HETEROGENEOUS_TYPES recomputed; matrices of exactly %d objects" % _n),
        _ds(_T + "merge_switch_ports", _n, _u, cost=90, note="MERGE_SWITCH_PORTS keeps every non-switch object and the values between them, the first port gets the links of all ports, other ports removed, no port => ENOENT and nothing changes; matrices of exactly %d objects, any NULL / \"NVSwitch\" / other-subtype pattern, any values" % _n),
        _ds(_T + "transitive_closure", _n, _u, cost=90, note="TRANSITIVE_CLOSURE keeps all objects, adds min(bandwidth to the switch, bandwidth from the switch) to every pair of distinct non-switch objects and nothing else; matrices of exactly %d objects" % _n),
    ]
C13X += [
    _ds(_T + "links", 2, 11, cost=60, defs={"VMAX": 255}, tdefs={"VMAX": 4095}, ttimeout=3600, note="LINKS: non-bandwidth => EINVAL untouched; diagonal 0; all values divided by the smallest positive one or ENOENT; 2 objects, values <= 255 (64-bit division is the SAT bottleneck)"),
    _ds(_T + "links", 3, 11, cost=250, defs={"VMAX": 15}, tdefs={"VMAX": 255}, timeout=1500, ttimeout=3600, note="LINKS on 3 objects, values <= 15"),
]
for _n in (2, 3, 4):
    C13X.append(_ds("hwloc_internal_distances_refresh_one", _n, _n * _n + 1, cost=10,
        note="refresh after the topology changed: valid cache => untouched without look-ups; else every entry re-resolved through the look-up (table stub), survivors compacted in order with their indexes, per-object types and the exact sub-matrix, < 2 survivors => -1 (dropped by the caller); exactly %d objects, any survivor pattern, os_index and gp_index matrices" % _n))
C13X += [
    _ds("hwloc_distances_get", 2, 6, nd=3, cost=30, note="get / get_by_type / get_by_name / get_by_depth on a list of 0..3 structures (2 objects each, names NULL or <= 2 chars, any kind words and types): *nr = number of structures matching the documented filter even when the array is smaller, slots filled in list order with private copies (same nbobjs, kind, objects, values, id), remaining slots NULL, slots beyond *nr untouched; flags / unloaded / invalid depth => EINVAL untouched; the list itself is unchanged"),
    _ds("hwloc_distances_remove_by_depth", 2, 6, nd=3, cost=5, note="removes exactly the structures whose type is the type of the depth; list links stay consistent; 0..3 structures"),
    _ds("hwloc_distances_release_remove", 2, 6, nd=3, cost=5, note="removes exactly the structure with the id of the user's copy, EINVAL and nothing removed when there is none; 0..3 structures with pairwise distinct ids"),
    _ds("hwloc_distances_remove", 2, 6, nd=3, cost=5, note="removes every structure (EINVAL on an unloaded topology); 0..3 structures"),
    _ds("hwloc_distances_add", 2, 6, nd=2, cost=20, note="add_create + add_values + add_commit on a list of 0..2 structures: invalid kind word / flags / NULL object / unknown commit flags => refused, list unchanged; success => appended at the tail with a fresh id, the caller's kind (+HETEROGENEOUS_TYPES iff types differ), private copies of name, objects and values, os_index or gp_index identities; 2 objects; grouping off"),
    _ds("hwloc_distances_add", 3, 10, nd=2, cost=40, note="same with 3 objects"),
]
DIST_DUP = _ds("hwloc_internal_distances_dup", 2, 6, nd=3, cost=20, malloc_may_fail=False, note="ALLOCATIONS SUCCEED (hwloc does not handle allocation failure on the dup path: not decided). hwloc_internal_distances_dup on a list of 0..3 structures (2 objects each): the duplicate list has the same structures in order with consistent prev/next/first/last links, equal scalars, indexes, types and values, an invalidated object cache, private copies of every array and name (no storage shared with the source); the source list is untouched; ")
PROPS["C13"] = [j for j in GUARD_EPERM if j.name == "hwloc_distances_add_create"] + C13X
DIFF_ROLLBACK = Job(name="hwloc_topology_diff_apply__rollback", driver="guard.diff.drv.c", entry="h_hwloc_topology_diff_apply__rollback",
    enforce="hwloc_topology_diff_apply/hwloc_topology_diff_apply__rollback", replace=["hwloc_apply_diff_one/verif_apply_one"], unwind=5, unwindset="__CPROVER_contracts_write_set_check_assigns_clause_inclusion.0:16", objbits=10, cost=20,
    family="guard", fallback=False, label="bounded", min_post=5, loop_contracts=False,
    note="lists of 0..3 entries (loops unwound 5 times), per-entry application replaced by a logging contract, any entry may be the failing one: all apply => 0, each applied once in order with the caller's flags; entry N fails => -N/EINVAL, entries 1..N-1 re-applied with APPLY_REVERSE toggled, nothing after N touched; frame = {errno, ghost log}")
PROPS["C16"] = [j for j in GUARD_EPERM if j.name == "hwloc_topology_diff_apply"] + [DIFF_ROLLBACK]
PROPS["C02"] = [ALLOW_GUARD]


# ------------------------------------------------------------------ C04 bitmap string conversions
def _pr(fn, cost=60, unwind=2, tdefs=None, **kw):
    tdefs = {"BUFMAX": 128, "NW": 128} if tdefs is None else tdefs
    return Job(name=fn, driver="bitmap.print.drv.c", entry="hp_" + fn, mode="plain", unwind=unwind, min_post=0, cost=cost,
               family="printers", plain_loop_contracts=True, drop_checks=("--pointer-overflow-check",), tdefs=tdefs, ttimeout=3600,
               fallback_plain={"defines": {"BUFMAX": 8, "NW": 2}, "unwind": 7}, **kw)

C04 = [
    _pr("hwloc_bitmap_snprintf", note="snprintf contract + termination; any bitmap with <= 64 stored words (loops closed by invariants), both tails, buffers 0..64 or NULL"),
    _pr("hwloc_bitmap_taskset_snprintf", note="snprintf contract + termination; any bitmap with <= 64 stored words, both tails, buffers 0..64 or NULL"),
    _pr("hwloc_bitmap_list_snprintf", note="snprintf contract + termination; any bitmap with <= 64 stored words, both tails, buffers 0..64 or NULL; next/next_unset inlined under their own loop invariants"),
] + [
    _pr(fn, cost=200, defines={"VERIF_ASPRINTF": None, "NW": 8}, timeout=1500, tdefs={"NW": 16},
        note="both passes + allocation of len+1 bytes are memory safe and terminate, returns a length with a string or -1; any bitmap with <= 8 stored words; that both passes produce the same text is assumed (snprintf contract stub)")
    for fn in ("hwloc_bitmap_asprintf", "hwloc_bitmap_list_asprintf", "hwloc_bitmap_taskset_asprintf")
] + [
    Job(name=fn, driver="bitmap.parse.drv.c", entry="hp_" + fn, mode="plain", unwind=9, min_post=0, cost=60, label="bounded",
        family="parsers", defines={"SLEN": 6}, timeout=1200, tdefs={"SLEN": 8}, ttimeout=7200, tunwind=11,
        note="arbitrary NUL-terminated string of <= 6 bytes (all byte values): returns 0/-1, memory safe, no failed assertion, REP preserved; loops unwound 9 times with unwinding assertions; strtoul as contract stub")
    for fn in ("hwloc_bitmap_sscanf", "hwloc_bitmap_taskset_sscanf")
]
PROPS["C04"] = C04


# ------------------------------------------------------------------ C15 cpukinds.c
def _ck(name, unwind=8, cost=30, entry=None, **kw):
    return Job(name=name, driver="cpukinds.drv.c", entry=entry or ("hp_" + name), mode="plain", unwind=unwind, min_post=0, cost=cost, family="cpukinds",
               label="bounded", **kw)

C15 = [
    _ck("hwloc_internal_cpukinds_register.n%d" % n, unwind=9, cost=90, timeout=1500, entry="hp_hwloc_internal_cpukinds_register",
        defines={"FIXED_NR": n, "REG_ALLOC": 0 if n == 0 else 8, "CK_NO_INFOS": None},
        note="partition invariant (non-empty, pairwise disjoint, union = old union + new set, <= 2N+1 kinds, array bounds) and the representation invariant of the kinds array (unused slots carry no infos) with %d existing kinds over an 8-PU universe (one PU per Venn region), every new cpuset / efficiency / flag word; empty cpuset and unknown flags => EINVAL; empty info lists; loops unwound 9 times" % n)
    for n in (0, 1, 2, 3)
] + [
    _ck("hwloc_cpukinds_get_by_cpuset", unwind=9, note="index of the containing kind, EXDEV iff straddling/partially covered, ENOENT iff disjoint from all kinds, EINVAL for flags/NULL/empty; <= 3 kinds, 8-PU universe"),
    _ck("hwloc_internal_cpukinds_restrict", unwind=9, cost=80, timeout=1500, defines={"REG_ALLOC": 8, "INFOCAP": 4}, remove_bodies=["hwloc_internal_cpukinds_rank"],
        note="restrict: every kind intersected with the topology cpuset, emptied kinds removed and their cpuset released, survivors keep order / cpuset object / infos, partition invariant, and the representation invariant register() relies on (the slot vacated at the end of the array carries no stale infos); <= 3 kinds with <= 2 info pairs each, 8-PU universe, every root cpuset; the ranking that follows a removal is cut out (it only writes efficiencies: assumed)"),
]
PROPS["C15"] = C15


# ------------------------------------------------------------------ C14 memattrs.c (selection logic)
def _ma(name, unwind=6, cost=20, label="bounded", **kw):
    return Job(name=name, driver="memattrs.drv.c", entry="hp_" + name, mode="plain", unwind=unwind, min_post=0, cost=cost, family="memattrs", label=label, **kw)

C14 = [
    _ma("hwloc__update_best_target", label="proof", note="update step: found afterwards, strictly better replaces, ties and worse leave best unchanged; all 2^64 values (loop-free, complete)"),
    _ma("hwloc__update_best_initiator", label="proof", note="same for initiators (loop-free, complete)"),
] + [
    Job(name="hwloc_memattr_get_best_target.%s" % tag, driver="memattrs.drv.c", entry="hp_hwloc_memattr_get_best_target", mode="plain", unwind=6, min_post=0, cost=60,
        family="memattrs", label="bounded", defines={"MA_AFLAGS": fl, "MA_ID": idv},
        note="optimal value among all stored targets, first target on ties, ENOENT when none, EINVAL for flags/unknown id; attribute without initiators (%s), <= 4 targets, arbitrary values; loops unwound" % tag)
    for tag, fl, idv in (("higher", "HWLOC_MEMATTR_FLAG_HIGHER_FIRST", 0), ("lower", "HWLOC_MEMATTR_FLAG_LOWER_FIRST", 0), ("unknown_id", "HWLOC_MEMATTR_FLAG_LOWER_FIRST", 3))
] + [
    Job(name="hwloc_memattr_get_best_initiator.%s" % tag, driver="memattrs.drv.c", entry="hp_hwloc_memattr_get_best_initiator", mode="plain", unwind=6, min_post=0, cost=60,
        family="memattrs", label="bounded", defines={"MA_AFLAGS": fl, "MA_ID": idv},
        note="optimal value among all stored initiators of the target, ENOENT when none, EINVAL clauses (%s); <= 4 initiators" % tag)
    for tag, fl, idv in (("higher", "(HWLOC_MEMATTR_FLAG_HIGHER_FIRST|HWLOC_MEMATTR_FLAG_NEED_INITIATOR)", 0), ("lower", "(HWLOC_MEMATTR_FLAG_LOWER_FIRST|HWLOC_MEMATTR_FLAG_NEED_INITIATOR)", 0),
                         ("no_initiator_attr", "HWLOC_MEMATTR_FLAG_LOWER_FIRST", 0), ("unknown_id", "(HWLOC_MEMATTR_FLAG_LOWER_FIRST|HWLOC_MEMATTR_FLAG_NEED_INITIATOR)", 3))
] + [
    _ma("hwloc_memattr_register", cost=60, note="exactly one of HIGHER/LOWER_FIRST else EINVAL, NULL name EINVAL, duplicate name EBUSY, success appends with next id; <= 2 existing attributes, 2-char names"),
]
C14 += [   # thorough tier only: 14 minutes on this image
    Job(name="hwloc__imattr_refresh", tiers=("thorough",), driver="memattrs.refresh.drv.c", entry="hp_hwloc__imattr_refresh", mode="plain", unwind=5, objbits=12, min_post=0, cost=60, family="memattrs", label="bounded", malloc_may_fail=False, timeout=3000,
        note="hwloc__imattr_refresh / hwloc__imtg_refresh / hwloc__imi_refresh after the topology changed: <= 2 targets with <= 2 initiators each (object or cpuset, arbitrary values), every survival pattern of the objects, every root cpuset over an 8-PU universe: exactly the surviving targets and initiators remain, in order, with their values and refreshed object pointers; cpuset initiators are intersected with the topology cpuset; cpusets of removed initiators are released exactly once; the cache is marked valid"),
]
PROPS["C14"] = C14


# ------------------------------------------------------------------ C05 leaf: base64.c (bounded)
C05 = [
    Job(name="base64_roundtrip.n%d" % n, driver="base64.drv.c", entry="hp_base64_roundtrip", mode="plain", unwind=70, min_post=0, cost=30, family="base64",
        label="bounded", defines={"B64_N": n}, note="decode(encode(x)) == x, lengths, NUL, exact-size buffers, too-small target refused; all byte strings of length %d" % n)
    for n in (0, 1, 2, 3, 4)
] + [
    Job(name="base64_decode_safe.t%d" % t, driver="base64.drv.c", entry="hp_base64_decode_safe", mode="plain", unwind=70, min_post=0, cost=10, family="base64",
        label="bounded", defines={"B64_S": 5, "B64_T": t}, note="decoder on an arbitrary 5-character string (all byte values) with a target of exactly %d bytes or NULL: memory safe, returns -1 or a length within the target" % t)
    for t in (0, 1, 2, 3, 4)
]
PROPS["C05"] = C05


# ------------------------------------------------------------------ C06 leaf: nolibxml in-place scanners (bounded)
C06 = [
    Job(name="nolibxml_" + fn, driver="nolibxml.drv.c", entry="hp_nolibxml_" + fn, mode="plain", unwind=40, min_post=0, cost=60, family="nolibxml",
        label="bounded", defines={"BL": 7}, timeout=1500, tdefs={"BL": 10}, ttimeout=7200,
        note="hwloc__nolibxml_import_%s on an arbitrary 7-byte buffer + NUL (all byte values), cursors anywhere inside: memory safe, returns, cursors stay inside; strspn model; loops unwound 40 times" % fn)
    for fn in ("next_attr", "find_child", "close_tag", "get_content")
]
C06 += [
    Job(name="nolibxml_look_init.%s" % tag, driver="nolibxml.drv.c", entry="hp_nolibxml_look_init", mode="plain", unwind=64, min_post=0, cost=30, family="nolibxml",
        label="bounded", defines={"BL": 4, "XHEAD": head}, timeout=900, tdefs={"BL": 8}, ttimeout=3600,
        note="hwloc_nolibxml_look_init on the document head %s followed by 4 arbitrary bytes + NUL (exact-size allocation): returns 0/-1, memory safe, on success the tag cursor points inside the buffer; sscanf model for the one format used" % head)
    for tag, head in (("version", '"<topology version=\\"2.0\\""'), ("v1", '"<topology"'), ("root", '"<roo"'), ("xmldecl", '"<?xml version=\\"1.0\\"?>\\n<topology version=\\"2.0\\""'), ("empty", '""'))
]
def _xi(name, unwind=11, cost=120, **kw):
    return Job(name=name, driver="xml.drv.c", entry=kw.pop("entry", "hp_" + name), mode="plain", unwind=unwind, min_post=0, cost=cost, family="xmlimport", label="bounded", timeout=1500, objbits=12,
               unwindset="hwloc__xml_import_distances.0:6,hwloc__xml_import_distances.3:4,hwloc__xml_import_distances.1:4,hwloc__xml_import_distances.2:4,hwloc___xml_import_info.0:7,verif_exact_string_of.0:4", **kw)
C06 += [
    _xi("xml_import_distances.n%d" % n, entry="hp_xml_import_distances", defines={"XNBOBJS": n}, note="[nbobjs attribute = %d] " % n + "hwloc__xml_import_distances (distances2 / distances2hetero) against the CONTRACT of the XML state API: any sequence of <= 5 attributes (names from the pool of every name the function knows plus an unknown one, values arbitrary strings <= 2 chars), <= 3 children (info / indexes / u64values / unknown, <= 2 attributes each) with arbitrary contents <= 3 chars, any numbers, any topology flags and XML version: memory safe (stores into the arrays sized from nbobjs stay inside), returns 0/-1, hands at most one complete matrix to the core")
    for n in (2,)
] + [
    Job(name="xml_import_cpukind", driver="xml.drv.c", entry="hp_xml_import_cpukind", mode="plain", unwind=20, min_post=0, cost=60, family="xmlimport", label="bounded", timeout=1500, objbits=12,
        unwindset="hwloc__xml_import_cpukind.0:6,hwloc__xml_import_cpukind.1:4,hwloc___xml_import_info.0:3,verif_exact_string_of.0:4",
        note="hwloc__xml_import_cpukind against the contract of the XML state API: any <= 5 attributes (cpuset / forced_efficiency / unknown), <= 3 children (info / unknown), any topology flags: memory safe, 0/-1, the cpuset it allocates is released exactly once on every path (freed or handed to hwloc_internal_cpukinds_register, ownership model in the driver), at most one registration"),
    Job(name="xml_import_userdata", driver="xml.drv.c", entry="hp_xml_import_userdata", mode="plain", unwind=11, min_post=0, cost=60, family="xmlimport", label="bounded", timeout=1500, objbits=12,
        unwindset="hwloc__xml_import_userdata.0:6,verif_exact_string_of.0:5,sprintf.0:13", defines={"XB": 4, "XNUM_MAX": "0xffffffffUL"},
        note="hwloc__xml_import_userdata against the contract of the XML state API (get_content delivers exactly the expected length, as both backends do): any <= 5 attributes (length / encoding / name / unknown, arbitrary values or 'base64'), contents <= 4 bytes, announced lengths < 2^32 (beyond 3*2^62 BASE64_ENCODED_LENGTH wraps: observed, not decided), callback present or not, decoded or not, hwloc_decode_from_base64 as its contract: memory safe, the callback receives `length` readable bytes, close_content is only called after a successful get_content"),
]
C06 += [
    Job(name="xml_import_memattr_value", driver="xml.drv.c", entry="hp_xml_import_memattr_value", mode="plain", unwind=26, min_post=0, cost=60, family="xmlimport", label="bounded", timeout=1500, objbits=12,
        unwindset="hwloc__xml_import_memattr_value.0:8,verif_exact_string_of.0:4",
        note="hwloc__xml_import_memattr_value against the contract of the XML state API: any <= 6 attributes (the six it knows + unknown ones, arbitrary values), any attribute flags and id: memory safe, 0/-1, hwloc_internal_memattr_set_value is called exactly when the element is accepted, with a valid target type and a well-formed initiator; an initiator cpuset is released exactly once"),
]
# work in progress, NOT registered (18 min; it reports that hwloc__xml_import_diff loses the already parsed diffs when a later child is rejected -- a leak on
# an error path, seen natively with valgrind on a sub-agent's reproducer; replay + fix are left for the next session): ./check C06WIP
XML_IMPORT_WIP = [
    Job(name="xml_import_diff", driver="xml.drv.c", entry="hp_xml_import_diff", mode="plain", unwind=20, min_post=0, cost=90, family="xmlimport", label="bounded", timeout=1500, objbits=12, malloc_may_fail=False,
        unwindset="hwloc__xml_import_diff.0:4,hwloc__xml_import_diff_one.0:7,verif_exact_string_of.0:4,hp_xml_import_diff.0:4,verif_counting_strdup.0:17", defines={"XA2": 6, "XC": 2},
        note="hwloc__xml_import_diff / _diff_one against the contract of the XML state API: <= 2 children (diff / unknown) with any <= 6 attributes each (all names it knows + unknown, arbitrary values <= 2 chars; numbers arbitrary), allocations succeed: memory safe, 0/-1, and no allocation of the import is lost -- on failure everything allocated has been released, on success the returned list owns everything (allocation accounting through counting wrappers of malloc / strdup / free around the included source)"),
]
PROPS["C06WIP"] = XML_IMPORT_WIP
PROPS["C06"] = C06 + [j for j in C05 if j.name.startswith("base64_decode_safe")]   # the decoder is also a leaf of the XML import (userdata)


# ------------------------------------------------------------------ C07 topology-synthetic.c
def _sy(name, entry=None, unwind=6, cost=30, label="bounded", defs=None, **kw):
    return Job(name=name, driver="synthetic.drv.c", entry=entry or ("hp_" + name), mode="plain", unwind=unwind, min_post=0, cost=cost,
               family="synthetic", label=label, defines=dict(defs or {}), drop_checks=("--pointer-overflow-check",), **kw)

_IDXC = ["hwloc__export_synthetic_indexes:verif_export_indexes_contract"]
_ATTRC = ["hwloc__export_synthetic_obj_attr:verif_export_obj_attr_contract"]
_OBJC = ["hwloc__export_synthetic_obj:verif_export_obj_contract"]
_MCC = ["hwloc__export_synthetic_memory_children:verif_export_memory_children_contract"]
C07 = [
    _sy("synth_update_status", label="proof", unwind=2, cost=2, note="hwloc__export_synthetic_update_status: the cursor invariant (0 <= tmplen <= buflen, tmp == buffer+(buflen-tmplen), buflen>0 => tmplen>=1) is preserved, ret grows by exactly res, failed pieces move nothing, nothing is written; all values, buflen <= 64 (loop-free, complete)"),
    _sy("synth_add_char", label="proof", unwind=2, cost=2, note="hwloc__export_synthetic_add_char: cursor invariant preserved, ret grows by one, the character and a NUL are stored iff two bytes are left, nothing outside [tmp,tmp+tmplen) changes; all values, buflen <= 64 (loop-free, complete)"),
] + [
    _sy("synth_export_indexes.n%d" % n, entry="hp_synth_export_indexes", unwind=n * n + 3, cost=20 * n, defs={"NB": n, "BUFMAX": 16},
        note="hwloc__export_synthetic_indexes on a level of exactly %d objects with arbitrary os_index values: snprintf-style contract (nothing outside [buffer,buffer+buflen), NUL-terminated, returns the sum of the piece lengths or -1), loops array in bounds, buffers 0..16" % n)
    for n in (1, 2, 3)
] + [
    _sy("synth_export_indexes.n4", entry="hp_synth_export_indexes", unwind=19, cost=280, defs={"NB": 4, "BUFMAX": 16}, tiers=("thorough",), timeout=1800,
        note="hwloc__export_synthetic_indexes on a level of exactly 4 objects (thorough tier)"),
    _sy("synth_export_obj_attr", unwind=5, cost=40, defs={"NB": 2, "BUFMAX": 16}, replace_calls=_IDXC,
        note="hwloc__export_synthetic_obj_attr for an object of any type and attribute content, <= 2 memory-side caches above it, a level of 2 cousins, any flag word: snprintf-style contract; the index list is exported by the contract of hwloc__export_synthetic_indexes"),
    _sy("synth_export_obj", unwind=5, cost=60, defs={"NB": 2, "BUFMAX": 16}, replace_calls=_ATTRC,
        note="hwloc__export_synthetic_obj for any type / attributes / arity / flag word: snprintf-style contract (type name, arity, attributes)"),
] + [
    _sy("synth_export_memory_children.nm%d_mc%d" % (nm, mcm), entry="hp_synth_export_memory_children", unwind=5, cost=60, defs={"NB": 2, "BUFMAX": 16, "SHAPE_NM": nm, "SHAPE_MC": mcm}, replace_calls=_OBJC,
        note="hwloc__export_synthetic_memory_children: %d memory children (memory-side-cache mask %d), any flag word incl. V1 (several children => EINVAL), any needprefix: snprintf-style contract with the exact number of separators" % (nm, mcm))
    for nm, mcm in ((0, 0), (1, 0), (1, 1), (2, 0), (2, 2))
] + [
    _sy("synth_export.nm%d_mc%d_mid%d" % (nm, mcm, mid), entry="hp_synth_export", unwind=5, cost=90, defs={"NB": 2, "BUFMAX": 16, "SHAPE_NM": nm, "SHAPE_MC": mcm, "SHAPE_MID": mid}, replace_calls=_ATTRC + _OBJC + _MCC,
        remove_bodies=["hwloc_check_memory_symmetric"],
        note="hwloc_topology_export_synthetic on Machine -> %s2 PUs with %d memory children below the root: not loaded / unknown flags / asymmetric root => EINVAL and nothing written; otherwise the snprintf-style contract for every flag word without V1, every attribute content, buffers 0..16; the memory-symmetry test is cut out (any answer)" % ("one level -> " if mid else "", nm))
    for nm, mcm, mid in ((0, 0, 0), (2, 2, 0))
] + [
    _sy("synth_parse_memory_attr", unwind=8, cost=5, defs={"SLEN": 5}, tdefs={"SLEN": 8}, tunwind=11, note="hwloc_synthetic_parse_memory_attr at any offset of an arbitrary NUL-terminated string of <= 5 bytes: the end pointer stays inside the string; strtoull contract stub"),
    _sy("synth_parse_attrs", unwind=8, cost=30, defs={"SLEN": 6}, tdefs={"SLEN": 9}, tunwind=11, note="hwloc_synthetic_parse_attrs on an arbitrary NUL-terminated string of <= 6 bytes: 0 or -1/EINVAL, memory safe, on success the next position is just after the closing bracket and the indexes text lies inside the list"),
]
_FS = ["--max-field-sensitivity-array-size", "2048"]     # constant propagation through the level table and the description text
def _syl(tag, n, tok, last, prefix="", cost=8):
    d = {"SYNTH_DIGITS": None, "HWLOC_VERIF_SYNTHETIC_MAX_DEPTH": 8, "SYN_N": n, "SYN_TOK": '"%s"' % tok, "SYN_LAST": '"%s"' % last, "SYN_PREFIX": '"%s"' % prefix}
    desc = prefix + tok * n + last
    return _sy("synth_init.%s%d" % (tag, n), entry="hp_synth_init_levels", unwind=24, cost=cost, defs=d, extra_cbmc=_FS, remove_bodies=["hwloc_synthetic_process_indexes"],
               note="hwloc_backend_synthetic_init(\"%s\") with the level table scaled down to 8 entries (HWLOC_SYNTHETIC_MAX_DEPTH is a symbolic constant of the code; hook HWLOC_VERIF_SYNTHETIC_MAX_DEPTH): memory safe -- every access to the level table in bounds --, returns 0/-1, an accepted description leaves a table hwloc__look_synthetic can build (Machine first, PU last, valid intermediate types, cache depths 1..5); the description has no indexes= attribute, hwloc_synthetic_process_indexes (a no-op then) is cut out" % desc)
C07 += [_syl("typed", n, "g:1 ", "u:1") for n in range(0, 7)] \
     + [_syl("untyped", n, "1 ", "1") for n in range(0, 7)] \
     + [_syl("attached", n, "2 ", "2", prefix="[n] ") for n in range(0, 7)] \
     + [_syl("mixed", n, "l:2 ", "u:2", prefix="p:1 [n] ") for n in (1, 2)]
C07 += [
] + [
    _sy("synth_process_indexes_loops.l%d" % l, entry="hp_synth_process_indexes_loops", unwind=14, cost=40, defs={"SYNTH_DIGITS": None, "SYNTH_ANYVALUE": None, "IDX_LOOPS": l, "IDX_TOTAL": 4}, extra_cbmc=_FS, timeout=900,
        note="hwloc_synthetic_process_indexes on the interleaving text of %d loops 'x*y:...' where every number stands for ANY value (number parser: exact end position, arbitrary value), any total <= 4: memory safe, no failed assertion, no division by zero, accepted interleavings yield in-range indexes" % l)
    for l in (1, 2, 3)
]
PROPS["C07"] = C07
# work in progress, NOT registered (thorough run of 2026-09-29: canary not reachable with unwind 13 -- the bound is too small somewhere): ./check C07WIP
PROPS["C07WIP"] = [
    _sy("synth_process_indexes", unwind=13, cost=300, tiers=("thorough",), ttimeout=3600, defs={"SLEN": 5, "IDX_TOTAL": 4}, timeout=900,
        note="hwloc_synthetic_process_indexes on an arbitrary indexes text of <= 5 bytes for a level of <= 4 objects below <= 3 levels of arbitrary widths: memory safe, no failed assertion, an accepted list has `total` entries; strtoul/strtol contract stubs (any value, end anywhere)"),
]


# ------------------------------------------------------------------ C12 dup: leaves only
TMA_DUP_INFOS = Job(name="hwloc__tma_dup_infos", driver="topology.drv.c", entry="hp_hwloc__tma_dup_infos", mode="plain", unwind=5, min_post=0, cost=20, family="dup", label="bounded", malloc_may_fail=False,
    note="ALLOCATIONS SUCCEED (allocation-failure paths not decided). hwloc__tma_dup_infos on 0..2 info pairs (strings <= 2 chars): returns 0, private copies with equal texts, same count/allocated; source untouched")
DUP_OBJ = Job(name="hwloc__duplicate_object.root", driver="dup.drv.c", entry="hp_hwloc__duplicate_object_root", mode="plain", unwind=5, min_post=0, cost=30, family="dup", label="bounded", malloc_may_fail=False,
    note="ALLOCATIONS SUCCEED. hwloc__duplicate_object of a childless object of arbitrary content into the pre-allocated root of the new topology: every scalar field, the userdata pointer and the attribute bytes are copied, the four sets are duplicates of the source's sets, name / subtype / infos are private copies, the object is placed in its level; the source object is untouched")
DUP_TOPO = Job(name="hwloc__topology_dup", driver="dup.drv.c", entry="hp_hwloc__topology_dup", mode="plain", unwind=24, objbits=12, min_post=0, cost=60, family="dup", label="bounded", malloc_may_fail=False, timeout=900,
    note="ALLOCATIONS SUCCEED. hwloc__topology_dup of a topology made of one Machine object, every other field arbitrary: not loaded => EINVAL; otherwise flags, state, pid, next_gp_index, type filters / depths, userdata callbacks, support bits are copied into private storage, allowed sets are duplicates, the root is duplicated field by field, distances / memattrs / cpukinds are each duplicated once (logging stubs), the source is untouched")
PROPS["C12"] = [j for j in C03 if j.name in ("hwloc_bitmap_dup", "hwloc_bitmap_copy")] + [DIST_DUP, TMA_DUP_INFOS, DUP_OBJ, DUP_TOPO]
