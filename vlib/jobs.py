"""Job tables: which verifier runs decide which property (DESIGN.md sections 2-3)."""
from .runner import Job

PROPS = {}

# ------------------------------------------------------------------ C03 bitmap.c
def _bm(fn, lis=0, cost=10, **kw):
    return Job(name=fn, driver="bitmap.drv.c", entry="h_" + fn, enforce=fn, min_lis=lis, cost=cost,
               family="bitmap", **kw)

C03 = [
    _bm("hwloc_bitmap_realloc_by_ulongs", lis=3, cost=15),
    _bm("hwloc_bitmap__zero", lis=2, cost=2),
    _bm("hwloc_bitmap__fill", lis=2, cost=2),
    _bm("hwloc_bitmap_alloc", cost=1),
    _bm("hwloc_bitmap_alloc_full", cost=1),
    _bm("hwloc_bitmap_free", cost=5, min_post=0),
    _bm("hwloc_bitmap_dup", cost=1),
    _bm("hwloc_bitmap_copy", cost=36),
    _bm("hwloc_bitmap_zero", lis=2, cost=12),
    _bm("hwloc_bitmap_fill", lis=2, cost=12),
    _bm("hwloc_bitmap_only", lis=2, cost=22),
    _bm("hwloc_bitmap_allbut", lis=2, cost=22),
    _bm("hwloc_bitmap_from_ulong", cost=20),
    _bm("hwloc_bitmap_from_ith_ulong", lis=3, cost=22),
    _bm("hwloc_bitmap_from_ulongs", lis=2, cost=20),
    _bm("hwloc_bitmap_to_ulong", cost=1),
    _bm("hwloc_bitmap_to_ith_ulong", cost=1),
    _bm("hwloc_bitmap_to_ulongs", lis=2, cost=1),
    _bm("hwloc_bitmap_nr_ulongs", lis=2, cost=1),
    _bm("hwloc_bitmap_set", lis=3, cost=15),
    _bm("hwloc_bitmap_clr", lis=3, cost=24),
    _bm("hwloc_bitmap_set_ith_ulong", lis=3, cost=24),
    _bm("hwloc_bitmap_set_range", lis=10, cost=100),
    _bm("hwloc_bitmap_clr_range", lis=10, cost=100),
    _bm("hwloc_bitmap_isset", cost=1),
    _bm("hwloc_bitmap_iszero", lis=2, cost=1),
    _bm("hwloc_bitmap_isfull", lis=2, cost=1),
    _bm("hwloc_bitmap_isequal", lis=6, cost=2),
    _bm("hwloc_bitmap_intersects", lis=6, cost=2),
    _bm("hwloc_bitmap_isincluded", lis=6, cost=2),
    _bm("hwloc_bitmap_or", lis=12, cost=160),
    _bm("hwloc_bitmap_and", lis=12, cost=180),
    _bm("hwloc_bitmap_andnot", lis=12, cost=170),
    _bm("hwloc_bitmap_xor", lis=12, cost=110),
    _bm("hwloc_bitmap_not", lis=3, cost=25),
    _bm("hwloc_bitmap_first", lis=2, cost=1),
    _bm("hwloc_bitmap_first_unset", lis=2, cost=1),
    _bm("hwloc_bitmap_last", lis=2, cost=1),
    _bm("hwloc_bitmap_last_unset", lis=2, cost=1),
    _bm("hwloc_bitmap_next", lis=2, cost=2),
    _bm("hwloc_bitmap_next_unset", lis=2, cost=2),
    _bm("hwloc_bitmap_singlify", lis=10, cost=25),
    _bm("hwloc_bitmap_weight", lis=3, cost=2),
    _bm("hwloc_bitmap_compare", lis=6, cost=5),
]
PROPS["C03"] = C03
