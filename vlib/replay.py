"""Violation handling: counterexample extraction, native replay on the real code,
bounded fallback for lost proofs, known-findings matching (DESIGN.md section 1.6)."""
import json, os, re, shutil, subprocess, sys, time
from . import runner

WITNESS_MAXW = 32


def load_known_findings(path):
    try:
        return json.load(open(path)).get("findings", [])
    except Exception:
        return []


def match_known(known, prop, item):
    """An *open* finding suppresses a violation only if property, function and obligation
    pattern match (and, when given, the input predicate holds on the extracted inputs)."""
    for kf in known:
        if kf.get("status") != "open" or kf.get("property") != prop:
            continue
        if kf.get("function") and kf["function"] != item.get("function"):
            continue
        if kf.get("obligation") and not re.search(kf["obligation"], item.get("obligation", "")):
            continue
        pred = kf.get("input_predicate")
        if pred:
            try:
                if not eval(pred, {"__builtins__": {}}, {"inputs": item.get("inputs") or {}, "item": item}):
                    continue
            except Exception:
                continue
        return kf
    return None


def _num(v):
    if v is None:
        return None
    if isinstance(v, (int,)):
        return v
    s = str(v).strip()
    s = re.sub(r"(ul|u|l|ull|ll)$", "", s, flags=re.I)
    try:
        return int(s, 0)
    except Exception:
        return None


def _struct_members(v):
    out = {}
    for m in v.get("members", []):
        val = m.get("value", {})
        if "data" in val:
            out[m["name"]] = _num(val["data"])
        elif "elements" in val:
            out[m["name"]] = [_num(e.get("value", {}).get("data")) for e in val["elements"]]
    return out


def extract_witness(trace):
    """Pull wit_b[], wit_s[], wit_m[], wit_alias and the ghosts out of a JSON trace."""
    w = {"b": {}, "s": {}, "m": {}, "alias": 0, "ghost": {}}
    for st in trace:
        if st.get("stepType") != "assignment":
            continue
        lhs = st.get("lhs") or ""
        v = st.get("value") or {}
        m = re.match(r"wit_b\[(\d+)l?\]$", lhs)
        if m and "members" in v:
            w["b"][int(m.group(1))] = _struct_members(v)
            continue
        m = re.match(r"wit_b\[(\d+)l?\]\.(\w+)$", lhs)
        if m and "data" in v:
            w["b"].setdefault(int(m.group(1)), {})[m.group(2)] = _num(v["data"])
            continue
        m = re.match(r"wit_b\[(\d+)l?\]\.w\[(\d+)l?\]$", lhs)
        if m and "data" in v:
            b = w["b"].setdefault(int(m.group(1)), {})
            ws = b.get("w") or [0, 0, 0, 0]
            ws = list(ws) + [0] * (4 - len(ws))
            ws[int(m.group(2))] = _num(v["data"])
            b["w"] = ws
            continue
        m = re.match(r"wit_([sm])\[(\d+)l?\]$", lhs)
        if m and "data" in v:
            w[m.group(1)][int(m.group(2))] = _num(v["data"])
            continue
        if lhs == "wit_alias" and "data" in v:
            w["alias"] = _num(v["data"])
        if lhs in ("g_k", "g_i", "g_j", "g_k2", "g_i2", "q_case") and "data" in v:
            w["ghost"][lhs] = _num(v["data"])
    return w


def native_bitmap_replay(here, fn, wit, log):
    """Build and run /verif/replay/bitmap_replay.c against /repo's bitmap.c. Returns (confirmed, output, argv)."""
    bdir = os.path.join(here, ".build", "replay")
    os.makedirs(bdir, exist_ok=True)
    exe = os.path.join(bdir, "bitmap_replay")
    src = os.path.join(here, "replay", "bitmap_replay.c")
    cmd = ["gcc", "-g", "-O0", "-fsanitize=address,undefined", "-fno-sanitize-recover=undefined", "-w",
           "-I" + os.path.join(runner.REPO, "include"), "-I" + os.path.join(runner.REPO, "hwloc"),
           '-DSRC="%s"' % os.path.join(runner.REPO, "hwloc/bitmap.c"), src, "-o", exe]
    p = subprocess.run(cmd, capture_output=True, text=True)
    if p.returncode != 0:
        cmd = [c for c in cmd if not c.startswith("-fsanitize") and not c.startswith("-fno-sanitize")]
        p = subprocess.run(cmd, capture_output=True, text=True)
        if p.returncode != 0:
            return False, "native replay build failed: " + p.stderr[-800:], []
    nb = (max(wit["b"].keys()) + 1) if wit["b"] else 0
    args = [fn, str(wit.get("alias") or 0), str(nb)]
    for i in range(nb):
        b = wit["b"].get(i, {})
        ws = b.get("w") or [0, 0, 0, 0]
        ws = [(x if x is not None else 0) for x in ws] + [0, 0, 0, 0]
        cnt = b.get("count") or 1
        args += [str(cnt), str(b.get("alloc") or cnt), str(b.get("inf") or 0)] + ["%#x" % (x & (2**64 - 1)) for x in ws[:4]]
    ns = (max(wit["s"].keys()) + 1) if wit["s"] else 0
    args.append(str(ns))
    for i in range(ns):
        args.append(str((wit["s"].get(i) or 0) & (2**64 - 1)))
    nm = (max(wit["m"].keys()) + 1) if wit["m"] else 0
    args.append(str(nm))
    for i in range(nm):
        args.append("%#x" % ((wit["m"].get(i) or 0) & (2**64 - 1)))
    gh = wit.get("ghost") or {}
    args += ["vary", str(gh.get("g_k") or 0), str(gh.get("g_k2") if gh.get("g_k2") is not None else (gh.get("g_k") or 0))]
    env = dict(os.environ); env["ASAN_OPTIONS"] = "detect_leaks=0"; env["UBSAN_OPTIONS"] = "print_stacktrace=0"
    try:
        p = subprocess.run([exe] + args, capture_output=True, text=True, timeout=180, env=env)
    except subprocess.TimeoutExpired:
        return True, "native replay did not terminate within 60 s", args
    out = (p.stdout + p.stderr)[-3000:]
    confirmed = p.returncode != 0 and p.returncode != 3
    return confirmed, out, args


def write_replay(here, prop, job, obligation, payload):
    d = os.path.join(here, "replays", prop)
    os.makedirs(d, exist_ok=True)
    safe = re.sub(r"[^A-Za-z0-9_.-]", "_", "%s.%s" % (job.name, obligation))
    path = os.path.join(d, safe + ".json")
    with open(path, "w") as f:
        json.dump(payload, f, indent=1)
    return path


def _compact_trace(trace, limit=60):
    out = []
    for st in trace or []:
        if st.get("stepType") == "assignment":
            lhs = st.get("lhs") or ""
            if lhs.startswith("__") or "dfcc" in lhs or "$" in lhs or "tmp_" in lhs:
                continue
            v = st.get("value") or {}
            val = v.get("data") if "data" in v else (json.dumps(_struct_members(v)) if "members" in v else v.get("name"))
            loc = st.get("sourceLocation") or {}
            out.append("%s = %s   (%s:%s)" % (lhs, val, os.path.basename(loc.get("file", "?")), loc.get("line", "?")))
        elif st.get("stepType") == "failure":
            out.append("FAILURE: %s %s" % (st.get("property"), st.get("reason")))
    return out[-limit:]


def handle_violation(prop, job, r, tier, builddir, log, here, wit_opts=None):
    """r['failed'] is non-empty.  Returns a list of violation items (one per distinct obligation group)."""
    items = []
    seen = set()
    # group by obligation class (e.g. fn.postcondition.3); keep the first few
    fails = [f for f in r["failed"] if f["status"] == "FAILURE"] or r["failed"]
    for f in fails:
        key = re.sub(r"\.\d+$", "", f["property"] or "")
        if key in seen or len(items) >= 4:
            continue
        seen.add(key)
        item = {"function": r["function"], "job": job.name, "obligation": f["property"], "description": f["description"],
                "location": f.get("location"), "confirmed": False, "inputs": None}
        payload = {"property": prop, "job": job.name, "function": r["function"], "failed_obligation": f,
                   "all_failed_obligations": [x["property"] for x in r["failed"]][:50],
                   "verifier": {"checker_cmd": r.get("checker_cmd"), "back_end": r["solver"], "mode": r["mode"]},
                   "replay_family": job.family}
        note = ""
        if job.family == "bitmap" and job.mode == "contract":
            wit, trace_txt, err = witness_run(job, f["property"], builddir, log, wit_opts)
            payload["verifier"]["witness_trace"] = trace_txt
            if wit and wit["b"] is not None and (wit["b"] or r["function"].endswith("alloc") or r["function"].endswith("alloc_full")):
                item["inputs"] = wit
                ok, out, argv = native_bitmap_replay(here, r["function"], wit, log)
                payload["native_replay"] = {"argv": argv, "output": out, "reproduced": ok}
                item["confirmed"] = ok
                note = out.strip().split("\n")[0][:300]
            else:
                payload["verifier"]["witness_error"] = err or "no small (<= %d words) counterexample" % 4
        else:
            # no native harness for this family: keep the verifier's trace
            if len(items) < 2:
                tr, err = runner.trace_for(job, r["_bins"]["main"], f["property"], "sat", min(job.timeout, 300),
                                           unwind=job.unwind)
            else:
                tr, err = None, "trace not generated (see the first replay files of this job)"
            payload["verifier"]["trace"] = _compact_trace(tr) if tr else err
            if job.family in REPLAYERS and tr:
                try:
                    ok, out, inputs = REPLAYERS[job.family](here, job, r, f, tr, log)
                    payload["native_replay"] = {"output": out, "reproduced": ok, "inputs": inputs}
                    item["confirmed"] = ok; item["inputs"] = inputs
                    note = out.strip().split("\n")[0][:300]
                except Exception as e:  # replay problems never hide the violation
                    payload["native_replay"] = {"error": repr(e)}
        payload["inputs"] = item["inputs"]
        payload["confirmed_on_real_code"] = item["confirmed"]
        item["replay"] = write_replay(here, prop, job, f["property"], payload)
        item["summary"] = "%s: %s [%s] %s" % (r["function"], f["property"], f["description"], note)
        items.append(item)
    return items


REPLAYERS = {}


def _harness_scalars(trace):
    """last value of every harness-level scalar / struct member assignment in a JSON trace"""
    vals = {}
    for st in trace:
        if st.get("stepType") != "assignment":
            continue
        lhs = st.get("lhs") or ""
        v = st.get("value") or {}
        if "data" in v:
            vals[lhs] = _num(v["data"]) if _num(v["data"]) is not None else v["data"]
        elif "members" in v:
            for k, x in _struct_members(v).items():
                vals[lhs + "." + k] = x
    return vals


def _build_native(here, src, exe, repo_sources=None):
    """compile a replay program together with the needed library sources of /repo's working tree
    (out of tree, nothing is written under /repo); repo_sources=None links the in-tree libhwloc.so instead"""
    bdir = os.path.join(here, ".build", "replay"); os.makedirs(bdir, exist_ok=True)
    out = os.path.join(bdir, exe)
    cmd = ["gcc", "-g", "-O0", "-w", "-I" + os.path.join(runner.REPO, "include"), "-I" + os.path.join(runner.REPO, "hwloc"),
           os.path.join(here, "replay", src)]
    if repo_sources is None:
        so = os.path.join(runner.REPO, "hwloc", ".libs", "libhwloc.so")
        subprocess.run(["make", "-C", os.path.join(runner.REPO, "hwloc"), "-j8"], capture_output=True)
        cmd += [so, "-Wl,-rpath," + os.path.dirname(so)]
    else:
        cmd += [os.path.join(runner.REPO, x) for x in repo_sources]
    cmd += ["-o", out]
    p = subprocess.run(cmd, capture_output=True, text=True)
    return (out if p.returncode == 0 else None), p.stderr[-500:]


def replay_printers(here, job, r, f, trace, log):
    vals = _harness_scalars(trace)
    fn = job.entry.replace("hp_", "")
    size = vals.get("size") or 0
    count = vals.get("verif_set.ulongs_count") or 1
    inf = 1 if vals.get("verif_set.infinite") else 0
    words = vals.get("verif_words.w") or vals.get("return_value_nondet_words.w") or []
    for k, v in vals.items():
        m = re.match(r"verif_words\.w\[(\d+)l?\]$", k)
        if m:
            i = int(m.group(1))
            while len(words) <= i:
                words.append(0)
            words[i] = v
    words = [(w or 0) & (2**64 - 1) for w in words][:count] + [0] * max(0, count - len(words))
    usenull = 1 if (vals.get("buf") in (0, "NULL", None) and size == 0) else 0
    exe, err = _build_native(here, "printers_replay.c", "printers_replay", ["hwloc/bitmap.c"])
    inputs = {"function": fn, "size": size, "use_null": usenull, "infinite": inf, "count": count, "words": ["%#x" % w for w in words]}
    if not exe:
        return False, "native replay build failed: " + err, inputs
    argv = [exe, fn, str(size), str(usenull), str(inf), str(count)] + ["%#x" % w for w in words]
    try:
        p = subprocess.run(argv, capture_output=True, text=True, timeout=60)
    except subprocess.TimeoutExpired:
        return True, "REPRODUCED: native call did not terminate within 60 s", inputs
    return p.returncode == 1, (p.stdout + p.stderr)[-1500:], inputs


def replay_unwind_extra():
    # witness mode allows MAXW=32 words but binds <= WITN(4) stored words; realloc fill loops may run up to 32 times
    return 30


def witness_run(job, prop_name, builddir, log, wit_opts=None):
    """Re-run the refuted obligation in witness mode (entry state bound to harness variables, <= WITN words)."""
    import copy
    wit_opts = wit_opts or {}
    wj = copy.copy(job)
    wj.defines = dict(job.defines); wj.defines["VERIF_WITNESS"] = None
    wj.defines.update(wit_opts.get("defines", {}))
    wj.name = job.name + ".wit" + wit_opts.get("suffix", "")
    base = os.path.join(builddir, wj.name)
    gb = base + ".gb"
    rc, out, err, secs, to = runner.goto_cc(wj, gb, builddir, WITNESS_MAXW, False)
    if rc != 0:
        return None, None, "witness build failed: " + err[-500:]
    igb = base + ".i.gb"
    rc, out, err, secs, to = runner.instrument(wj, gb, igb, wit_opts.get("loop_contracts", True) and job.loop_contracts)
    if rc != 0:
        return None, None, "witness instrumentation failed: " + (out + err)[-500:]
    tr, err = runner.trace_for(wj, igb, prop_name, "sat", min(job.timeout, 600), unwind=wit_opts.get("unwind", job.unwind))
    if tr is None:
        return None, None, err
    wit = extract_witness(tr)
    return wit, _compact_trace(tr), None


def proof_lost_fallback(prop, job, r, tier, builddir, log, here):
    """Only proof-internal obligations were refuted.  Check the same function contract without loop
    contracts by unwinding on a small domain (MAXW=4 words, unwind 7).  A refuted function-level
    obligation there is a real counterexample; otherwise the property is undecided (PROOF-LOST)."""
    import copy
    out = {"violations": [], "summary": ""}
    if job.mode == "plain" and job.fallback_plain:
        # plain harness under loop contracts: same harness, loops unwound, smaller domain
        fj = copy.copy(job)
        fj.defines = dict(job.defines); fj.defines["VERIF_NO_LOOP_CONTRACTS"] = None
        fj.defines.update(job.fallback_plain.get("defines", {}))
        fj.plain_loop_contracts = False; fj.fallback_plain = None
        fj.unwind = job.fallback_plain.get("unwind", 8); fj.name = job.name + ".fb"; fj.split = 0
        r2 = runner.execute(fj, tier, builddir, fj.maxw_for(tier), "sat", log)
        bad = [x for x in r2["failed"] if ".unwind." not in (x.get("property") or "")]
        desc = "bounded fallback (%s, unwind %d)" % (",".join("%s=%s" % kv for kv in job.fallback_plain.get("defines", {}).items()), fj.unwind)
        if r2["status"] in ("tool-error", "timeout"):
            out["summary"] = desc + " did not finish: " + r2["status"]
        elif bad:
            r2["failed"] = bad
            out["violations"] = handle_violation(prop, fj, r2, tier, builddir, log, here)
            out["summary"] = desc + " refuted " + str(bad[0].get("property"))
        else:
            out["summary"] = desc + " passed %d obligations" % r2["discharged"]
        return out
    if job.mode != "contract" or not job.fallback:
        out["summary"] = "no fallback for this job"
        return out
    fj = copy.copy(job)
    fj.defines = dict(job.defines); fj.defines["VERIF_NO_LOOP_CONTRACTS"] = None
    fj.name = job.name + ".fb"; fj.min_lis = 0
    base = os.path.join(builddir, fj.name)
    gb = base + ".gb"
    rc, o, err, secs, to = runner.goto_cc(fj, gb, builddir, 4, False)
    if rc != 0:
        out["summary"] = "fallback build failed"; return out
    igb = base + ".i.gb"
    rc, o, err, secs, to = runner.instrument(fj, gb, igb, False)
    if rc != 0:
        out["summary"] = "fallback instrumentation failed"; return out
    cmd = runner.cbmc_cmd(fj, igb, "sat", unwind=7)
    rc, o, err, secs, to = runner.run(cmd, min(job.timeout, 900))
    if to:
        out["summary"] = "fallback timed out"; return out
    results, msgs, status = runner.parse_cbmc_json(o)
    if results is None:
        out["summary"] = "fallback gave no results"; return out
    bad = [x for x in results if x.get("status") != "SUCCESS" and not runner.is_proof_internal(x) and ".unwind." not in x.get("property", "")]
    unw = [x for x in results if x.get("status") != "SUCCESS" and ".unwind." in x.get("property", "")]
    if bad:
        r2 = dict(r)
        r2["failed"] = [{"property": x.get("property"), "status": x.get("status"), "description": x.get("description"),
                         "location": x.get("sourceLocation") or {}} for x in bad]
        r2["_bins"] = {"main": igb}
        fj.unwind = 7
        out["violations"] = handle_violation(prop, job, r2, tier, builddir, log, here,
                                             wit_opts={"defines": {"VERIF_NO_LOOP_CONTRACTS": None}, "loop_contracts": False,
                                                       "unwind": 7 + replay_unwind_extra(), "suffix": ".fb"})
        out["summary"] = "bounded fallback (<=4 words, unwind 7) refuted %s" % bad[0].get("property")
    else:
        out["summary"] = "bounded fallback (<=4 words, unwind 7) passed %d obligations%s" % (
            len(results), "; unwinding assertions failed" if unw else "")
    return out


def replay_file(path, log):
    """./check X --replay file : re-run the native replay recorded in a replay file."""
    here = os.path.dirname(os.path.dirname(os.path.abspath(__file__)))
    d = json.load(open(path))
    if d.get("replay_family") == "bitmap" and d.get("inputs"):
        wit = d["inputs"]
        wit["b"] = {int(k): v for k, v in wit["b"].items()}
        wit["s"] = {int(k): v for k, v in wit["s"].items()}
        wit["m"] = {int(k): v for k, v in wit["m"].items()}
        ok, out, argv = native_bitmap_replay(here, d["function"], wit, log)
        print(out.strip())
        print("replay of %s: %s" % (d["failed_obligation"]["property"], "REPRODUCED on the real code" if ok else "not reproduced"))
        return 1 if ok else 0
    fam = d.get("replay_family")
    if fam in REPLAY_FILE_HANDLERS:
        return REPLAY_FILE_HANDLERS[fam](here, d, log)
    print("no native replay for this file; obligation %s; verifier output is in the file" % d.get("failed_obligation", {}).get("property"))
    return 0


REPLAY_FILE_HANDLERS = {}

REPLAYERS["printers"] = replay_printers


def replay_guard(here, job, r, f, trace, log):
    """C19/C08/C02/C13/C16 guard contracts: the counterexample fixes entry point and clause, the rest is enumerated natively"""
    fn = r["function"]
    if fn == "hwloc_topology_allow":
        exe, err = _build_native(here, "allow_replay.c", "allow_replay")
        runs = [[exe]] if exe else []
    else:
        exe, err = _build_native(here, "guard_replay.c", "guard_replay")
        runs = []
        if exe:
            if fn == "hwloc_topology_restrict":
                runs.append([exe, "restrict"])
            runs.append([exe, "eperm", fn])
    if not runs:
        return False, "native replay build failed: " + err, {"function": fn}
    outs = []
    for argv in runs:
        try:
            p = subprocess.run(argv, capture_output=True, text=True, timeout=120)
        except subprocess.TimeoutExpired:
            return True, "REPRODUCED: native call did not terminate within 120 s", {"function": fn, "argv": argv[1:]}
        outs.append((p.stdout + p.stderr).strip()[-800:])
        if p.returncode == 1:
            return True, outs[-1], {"function": fn, "argv": argv[1:]}
    return False, " | ".join(outs), {"function": fn}


REPLAYERS["guard"] = replay_guard


def replay_distances(here, job, r, f, trace, log):
    """C13 plain harnesses: the counterexample fixes the entry point and the clause; the public entry points are then
    enumerated natively on small inputs against an oracle written from the documentation (replay/distances_replay.c)"""
    fn = job.entry.replace("hp_", "")
    mode = "transform" if "transform" in fn else "add" if "distances_add" in fn else None
    if not mode:
        return False, "no native replay for %s (static function or list surgery): the verifier's trace is in this file" % fn, {"function": fn}
    exe, err = _build_native(here, "distances_replay.c", "distances_replay")
    if not exe:
        return False, "native replay build failed: " + err, {"function": fn}
    try:
        p = subprocess.run([exe, mode], capture_output=True, text=True, timeout=120)
    except subprocess.TimeoutExpired:
        return True, "REPRODUCED: native call did not terminate within 120 s", {"function": fn, "argv": [mode]}
    return p.returncode == 1, (p.stdout + p.stderr).strip()[-800:], {"function": fn, "argv": [mode]}


REPLAYERS["distances"] = replay_distances



def replay_shmem(here, job, r, f, trace, log):
    """C19 shmem.c: the refuted clause is replayed by a native write + adopt + consulting calls scenario in a child process"""
    exe, err = _build_native(here, "shmem_replay.c", "shmem_replay")
    if not exe:
        return False, "native replay build failed: " + err, {"function": job.entry}
    try:
        p = subprocess.run([exe], capture_output=True, text=True, timeout=120)
    except subprocess.TimeoutExpired:
        return True, "REPRODUCED: native scenario did not terminate within 120 s", {"function": job.entry}
    return p.returncode == 1, (p.stdout + p.stderr).strip()[-800:], {"function": job.entry, "argv": []}


REPLAYERS["shmem"] = replay_shmem


def replay_cpukinds(here, job, r, f, trace, log):
    """C15 cpukinds.c: restrict obligations are replayed by the native register / restrict / register scenario"""
    if "restrict" not in job.entry:
        return False, "no native replay for %s: the verifier's trace is in this file" % job.entry, {"function": job.entry}
    exe, err = _build_native(here, "cpukinds_replay.c", "cpukinds_replay")
    if not exe:
        return False, "native replay build failed: " + err, {"function": job.entry}
    try:
        p = subprocess.run([exe], capture_output=True, text=True, timeout=120)
    except subprocess.TimeoutExpired:
        return True, "REPRODUCED: native scenario did not terminate within 120 s", {"function": job.entry}
    return p.returncode == 1, (p.stdout + p.stderr).strip()[-800:], {"function": job.entry, "argv": []}


REPLAYERS["cpukinds"] = replay_cpukinds


def replay_synthetic(here, job, r, f, trace, log):
    """C07 topology-synthetic.c: parser obligations are replayed by loading descriptions of every depth 1..127 natively under
    valgrind (the scaled-down level table of the harness corresponds to 128 entries in the library); exporter obligations by
    exporting a few synthetic topologies into guarded buffers of every size (replay/synthetic_replay.c)"""
    mode = "interleave" if "process_indexes" in job.entry else "levels" if ("init" in job.entry or "parse" in job.entry) else "export"
    exe, err = _build_native(here, "synthetic_replay.c", "synthetic_replay")
    if not exe:
        return False, "native replay build failed: " + err, {"function": job.entry}
    cmd = (["valgrind", "-q", "--error-exitcode=1"] if mode == "levels" else []) + [exe, mode]
    try:
        p = subprocess.run(cmd, capture_output=True, text=True, timeout=300)
    except subprocess.TimeoutExpired:
        return True, "REPRODUCED: native scenario did not terminate within 300 s", {"function": job.entry, "argv": cmd}
    out = (p.stdout + p.stderr)
    if mode == "levels":
        m = re.search(r"Invalid (write|read) of size \d+[^\n]*\n(?:[^\n]*\n){0,8}", out)
        if m:
            return True, "REPRODUCED under valgrind: hwloc_topology_set_synthetic() on a description of one of the depths 1..127 (typed 'group:1 ... pu:1' / untyped '1 1 ... 1' / with '[numa]'): " + " | ".join(x.strip() for x in m.group(0).split("\n")[:6]), {"function": job.entry, "argv": cmd}
        return False, out.strip()[-600:], {"function": job.entry, "argv": cmd}
    return p.returncode == 1, out.strip()[-800:], {"function": job.entry, "argv": cmd}


REPLAYERS["synthetic"] = replay_synthetic


def replay_nolibxml(here, job, r, f, trace, log):
    """C06 nolibxml scanners: hostile document heads / tails are loaded natively with the built-in parser, each in a child
    process (replay/xmlbuf_replay.c); only used for the document-level job (look_init), the in-place scanners keep the trace"""
    if "look_init" not in job.entry and "xml_import" not in job.entry:
        return False, "no native replay for %s: the verifier's trace is in this file" % job.entry, {"function": job.entry}
    exe, err = _build_native(here, "xmlbuf_replay.c", "xmlbuf_replay")
    if not exe:
        return False, "native replay build failed: " + err, {"function": job.entry}
    try:
        # under valgrind (children too): an over-read of the exact-size heap copy of the buffer makes the child exit with status 1
        p = subprocess.run(["valgrind", "-q", "--trace-children=yes", "--error-exitcode=1", exe], capture_output=True, text=True, timeout=600)
    except subprocess.TimeoutExpired:
        return True, "REPRODUCED: native scenario did not terminate within 600 s", {"function": job.entry}
    out = p.stdout + p.stderr
    m = re.search(r"REPRODUCED[^\n]*", out)
    return p.returncode == 1 or bool(m), ((m.group(0) + " | ") if m else "") + " ".join(x.strip() for x in re.findall(r"Invalid (?:read|write)[^\n]*\n[^\n]*\n[^\n]*", out)[:1])[:500] or out.strip()[-500:], {"function": job.entry, "argv": ["valgrind", exe]}


REPLAYERS["nolibxml"] = replay_nolibxml
REPLAYERS["xmlimport"] = replay_nolibxml
