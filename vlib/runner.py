"""Job runner for the contract-verification checks (DESIGN.md sections 1.4-1.6).

A *job* is one verifier run on the real source of /repo:

  goto-cc  (driver TU that #includes /repo/hwloc/X.c)  ->  goto-instrument --dfcc
  --enforce-contract f [--replace-call-with-contract g]* --apply-loop-contracts
  ->  cbmc (SAT or SMT)

Every job is built twice: without the canary (the proof run) and with it (the
vacuity run, where exactly the canary must be refuted).
"""
import json, os, re, resource, shutil, subprocess, sys, time
from concurrent.futures import ThreadPoolExecutor

VERIF = os.path.dirname(os.path.dirname(os.path.abspath(__file__)))
REPO = os.environ.get("VERIF_REPO", "/repo")

CHECK_FLAGS = ["--bounds-check", "--pointer-check", "--signed-overflow-check",
               "--undefined-shift-check", "--div-by-zero-check",
               "--pointer-overflow-check"]
MALLOC_FLAGS = ["--malloc-may-fail", "--malloc-fail-null"]

# domain bound on bitmap storage (words): every bit index < 2^30 (SAT time does not depend on it)
DEFAULT_MAXW = {"quick": 16777216, "thorough": 16777216}

PROOF_INTERNAL = re.compile(r"\.(loop_invariant_base|loop_invariant_step|loop_assigns|loop_decreases|loop_step_unwinding|loop_entry)\.|\.assigns\.\d+$" )
# NB: "loop assigns" failures are reported by DFCC as <fn>.assigns.N with a description
# naming the loop; they are told apart from function-level frame violations by description.


GLOBALS_IN_FRAMES = {"verif_errno", "errno"}


class Job:
    def __init__(self, name, driver, entry, enforce=None, replace=(), mode="contract",
                 unwind=None, label="proof", defines=None, min_post=1, min_lis=0,
                 timeout=900, tiers=("quick", "thorough"), solver=None, note="",
                 replay=None, objbits=None, extra_cbmc=(), fallback=True, maxw=None,
                 expect_fail=(), src=None, unwindset=None, cost=10, family=None, optional=False, canary_from=None, split=0, loop_contracts=True, drop_checks=(), plain_loop_contracts=False, fallback_plain=None, tdefs=None, ttimeout=None, tunwind=None, remove_bodies=(), replace_calls=(), malloc_may_fail=True):
        self.name = name; self.driver = driver; self.entry = entry
        self.enforce = enforce; self.replace = list(replace); self.mode = mode
        self.unwind = unwind; self.label = label; self.defines = dict(defines or {})
        self.min_post = min_post; self.min_lis = min_lis; self.timeout = timeout
        self.tiers = tiers; self.solver = solver; self.note = note; self.replay = replay
        self.objbits = objbits; self.extra_cbmc = list(extra_cbmc); self.fallback = fallback
        self.maxw = maxw; self.expect_fail = list(expect_fail); self.src = src
        self.unwindset = unwindset; self.cost = cost; self.family = family; self.optional = optional; self.canary_from = canary_from; self.split = split; self.loop_contracts = loop_contracts; self.drop_checks = tuple(drop_checks); self.plain_loop_contracts = plain_loop_contracts; self.fallback_plain = fallback_plain
        self.tdefs = dict(tdefs or {}); self.ttimeout = ttimeout; self.tunwind = tunwind
        self.malloc_may_fail = malloc_may_fail   # False: allocations succeed (stated in the job note); the allocation-failure paths are then not decided
        self.replace_calls = list(replace_calls)   # plain mode: calls of f redirected to an executable contract g (goto-instrument --replace-calls f:g); f is checked against the same contract by its own job
        self.remove_bodies = list(remove_bodies)   # plain mode: callees whose bodies are dropped (nondeterministic result, no side effect: an ASSUMPTION listed in the evidence)

    def for_tier(self, tier):
        """the thorough tier widens the stated bounds of a job (larger buffers, quantifier bounds, string lengths, time)"""
        if tier != "thorough" or not (self.tdefs or self.ttimeout or self.tunwind):
            return self
        import copy
        j = copy.copy(self)
        j.defines = dict(self.defines); j.defines.update(self.tdefs)
        if self.ttimeout: j.timeout = self.ttimeout
        if self.tunwind: j.unwind = self.tunwind
        if self.tdefs:
            j.note = self.note + " [thorough tier: " + ", ".join("%s=%s" % kv for kv in self.tdefs.items()) + "]"
        return j

    def maxw_for(self, tier):
        if self.maxw is not None:
            return self.maxw if not isinstance(self.maxw, dict) else self.maxw[tier]
        return DEFAULT_MAXW[tier]

    def solver_for(self, tier):
        if isinstance(self.solver, dict):
            return self.solver.get(tier, "sat")
        return self.solver or "sat"


def _limits(mem_kb):
    def f():
        resource.setrlimit(resource.RLIMIT_AS, (mem_kb * 1024, mem_kb * 1024))
        os.setsid()
    return f


import threading
CPU_SLOTS = threading.BoundedSemaphore(int(os.environ.get("VERIF_JOBS", "0") or 0) or min(16, os.cpu_count() or 4))


def run(cmd, timeout, mem_kb=20_000_000, env=None, cwd=None):
    """returns (rc, stdout, stderr, seconds, timed_out); at most CPU_SLOTS processes at a time"""
    with CPU_SLOTS:
        return _run(cmd, timeout, mem_kb, env, cwd)


def _run(cmd, timeout, mem_kb=20_000_000, env=None, cwd=None):
    t0 = time.time()
    try:
        p = subprocess.Popen(cmd, stdout=subprocess.PIPE, stderr=subprocess.PIPE,
                             preexec_fn=_limits(mem_kb), env=env, cwd=cwd)
        try:
            out, err = p.communicate(timeout=timeout)
            return p.returncode, out.decode("utf-8", "replace"), err.decode("utf-8", "replace"), time.time() - t0, False
        except subprocess.TimeoutExpired:
            try:
                os.killpg(p.pid, 9)
            except Exception:
                p.kill()
            out, err = p.communicate()
            return -9, out.decode("utf-8", "replace"), err.decode("utf-8", "replace"), time.time() - t0, True
    except OSError as e:
        return -1, "", str(e), time.time() - t0, False


def solver_env(solver):
    """z3 back end: put z3-new (5.1) first on PATH under the name z3."""
    env = dict(os.environ)
    if solver == "z3":
        d = os.path.join(VERIF, ".build", "bin")
        os.makedirs(d, exist_ok=True)
        link = os.path.join(d, "z3")
        target = shutil.which("z3-new") or shutil.which("z3")
        if not os.path.exists(link) and target:
            try:
                os.symlink(target, link)
            except FileExistsError:
                pass
        env["PATH"] = d + ":" + env["PATH"]
    return env


def goto_cc(job, out, builddir, maxw, canary, extra_defs=()):
    srcs = {
        "BITMAP": "hwloc/bitmap.c", "BIND": "hwloc/bind.c", "TRAVERSAL": "hwloc/traversal.c",
        "TOPOLOGY": "hwloc/topology.c", "CPUKINDS": "hwloc/cpukinds.c", "MEMATTRS": "hwloc/memattrs.c",
        "DISTANCES": "hwloc/distances.c", "DIFF": "hwloc/diff.c", "SHMEM": "hwloc/shmem.c",
        "BASE64": "hwloc/base64.c", "NOLIBXML": "hwloc/topology-xml-nolibxml.c",
        "SYNTHETIC": "hwloc/topology-synthetic.c", "XML": "hwloc/topology-xml.c", "MISC": "hwloc/misc.c",
    }
    cmd = ["goto-cc", "-I" + os.path.join(VERIF, "include"), "-I" + os.path.join(VERIF, "stubs"),
           "-I" + os.path.join(VERIF, "contracts"), "-I" + os.path.join(VERIF, "harness"),
           "-I" + os.path.join(REPO, "include"), "-I" + os.path.join(REPO, "hwloc"),
           "-DHWLOC_VERIF", "-DMAXW=%su" % maxw]
    for k, v in srcs.items():
        cmd.append('-DHWLOC_VERIF_SRC_%s="%s"' % (k, os.path.join(REPO, v)))
    if not canary:
        cmd.append("-DVERIF_NO_CANARY")
    for k, v in job.defines.items():
        cmd.append("-D%s=%s" % (k, v) if v is not None else "-D%s" % k)
    cmd += list(extra_defs)
    cmd += ["--function", job.entry, os.path.join(VERIF, "drivers", job.driver), "-o", out]
    return run(cmd, 300)


def instrument(job, inp, out, loop_contracts=True):
    cmd = ["goto-instrument"] + MALLOC_FLAGS + ["--dfcc", job.entry]
    if job.enforce:
        cmd += ["--enforce-contract", job.enforce]
    for r in job.replace:
        cmd += ["--replace-call-with-contract", r]
    if loop_contracts:
        cmd += ["--apply-loop-contracts"]
    cmd += [inp, out]
    return run(cmd, 600)


def cbmc_cmd(job, binary, solver, props=None, trace=False, unwind=None, unwinding_assertions=True):
    cmd = ["cbmc"] + (MALLOC_FLAGS if getattr(job, "malloc_may_fail", True) else ["--no-malloc-may-fail"]) + [f for f in CHECK_FLAGS if f not in job.drop_checks] + ["--json-ui"]
    if job.mode != "contract":
        cmd.append("--drop-unused-functions")   # plain harness: only obligations reachable from the entry point
    if solver == "z3":
        cmd.append("--z3")
    elif solver == "cvc5":
        cmd.append("--cvc5")
    elif solver and solver != "sat":
        cmd += ["--sat-solver", solver]
    if job.objbits:
        cmd += ["--object-bits", str(job.objbits)]
    if unwind is not None:
        cmd += ["--unwind", str(unwind)]
        if unwinding_assertions:
            cmd.append("--unwinding-assertions")
    if job.unwindset:
        cmd += ["--unwindset", job.unwindset]
    for p in props or ():
        cmd += ["--property", p]
    if trace:
        cmd.append("--trace")
    cmd += job.extra_cbmc
    cmd.append(binary)
    return cmd


def parse_cbmc_json(text):
    """returns (results list, messages list, cprover_status or None)"""
    try:
        data = json.loads(text)
    except Exception:
        # truncated output (timeout): try to salvage nothing
        return None, [], None
    results, msgs, status = [], [], None
    for item in data:
        if "result" in item:
            results = item["result"]
        if "messageText" in item:
            msgs.append(item["messageText"])
        if "cProverStatus" in item:
            status = item["cProverStatus"]
    return results, msgs, status


def is_proof_internal(r):
    name = r.get("property", "")
    desc = r.get("description", "")
    if re.search(r"\.(loop_invariant_base|loop_invariant_step|loop_decreases|loop_step_unwinding)\.", name):
        return True
    if "invariant" in desc and "loop" in desc:
        return True
    if "decreases clause" in desc or "loop assigns" in desc.lower():
        return True
    if re.search(r"\.assigns\.\d+$", name) and re.search(r"for loop|loop ", desc):
        return True
    # DFCC reports a write that is missing from a LOOP assigns clause as <fn>.assigns.N too.  A plain local
    # identifier is always in the function-level write set, so such a failure can only come from a loop contract.
    m = re.match(r"Check that ([A-Za-z_]\w*) is assignable$", desc)
    if re.search(r"\.assigns\.\d+$", name) and m and m.group(1) not in GLOBALS_IN_FRAMES:
        return True
    return False


def execute(job, tier, builddir, maxw, solver, log):
    """Run one job (proof run + vacuity run).  Returns a dict."""
    os.makedirs(builddir, exist_ok=True)
    res = {"job": job.name, "function": (job.enforce or job.entry).split("/")[0], "mode": job.mode, "label": job.label,
           "solver": solver, "maxw": maxw, "status": "ok", "failed": [], "internal_failed": [],
           "obligations": 0, "discharged": 0, "seconds": 0.0, "canary": None, "note": job.note,
           "replaced": job.replace + ["%s (calls redirected to the executable contract %s)" % tuple(x.split(":")) for x in getattr(job, "replace_calls", [])], "unwind": job.unwind, "errors": [], "removed_bodies": list(getattr(job, "remove_bodies", []))}
    base = os.path.join(builddir, job.name)
    t0 = time.time()

    def build(canary, suffix, extra_defs=(), loop_contracts=True):
        gb = base + suffix + ".gb"
        rc, out, err, secs, to = goto_cc(job, gb, builddir, maxw, canary, extra_defs)
        if rc != 0 or not os.path.exists(gb):
            res["errors"].append("goto-cc failed: " + (err or out)[-2000:])
            return None
        if job.mode == "contract":
            igb = base + suffix + ".i.gb"
            rc, out, err, secs, to = instrument(job, gb, igb, loop_contracts and job.loop_contracts)
            if rc != 0 or not os.path.exists(igb):
                res["errors"].append("goto-instrument failed: " + (out + err)[-3000:])
                return None
            return igb
        if job.replace_calls and job.mode != "contract":
            cgb = base + suffix + ".rc.gb"
            cmdc = ["goto-instrument"]
            for fg in job.replace_calls:
                cmdc += ["--replace-calls", fg]
            rc, out, err, secs, to = run(cmdc + [gb, cgb], 300)
            if rc != 0 or not os.path.exists(cgb):
                res["errors"].append("goto-instrument --replace-calls failed: " + (out + err)[-2000:])
                return None
            gb = cgb
        if job.remove_bodies and job.mode != "contract":
            rgb = base + suffix + ".r.gb"
            cmdr = ["goto-instrument"]
            for fn in job.remove_bodies:
                cmdr += ["--remove-function-body", fn]
            rc, out, err, secs, to = run(cmdr + [gb, rgb + ".0"], 300)
            if rc == 0:
                # give the removed callees a body again (nondeterministic result, no side effect) so that cbmc's
                # "no body for callee" check does not fire
                cmdg = ["goto-instrument", "--generate-function-body", "|".join(job.remove_bodies), "--generate-function-body-options", "nondet-return", rgb + ".0", rgb]
                rc, out, err, secs, to = run(cmdg, 300)
            if rc != 0 or not os.path.exists(rgb):
                res["errors"].append("goto-instrument --remove-function-body failed: " + (out + err)[-2000:])
                return None
            gb = rgb
        if job.plain_loop_contracts and loop_contracts:
            # plain harness + loop contracts without DFCC: drop unreachable functions, then
            # goto-instrument --apply-loop-contracts (which also makes statics nondeterministic)
            dgb = base + suffix + ".d.gb"; igb = base + suffix + ".i.gb"
            rc, out, err, secs, to = run(["goto-instrument", "--drop-unused-functions", gb, dgb], 300)
            if rc == 0:
                rc, out, err, secs, to = run(["goto-instrument", "--apply-loop-contracts", dgb, igb], 600)
            if rc != 0 or not os.path.exists(igb):
                res["errors"].append("goto-instrument (plain loop contracts) failed: " + (out + err)[-3000:])
                return None
            return igb
        return gb

    main_bin = build(False, "")
    unwind = job.unwind if job.mode in ("unwind", "plain") or job.unwind else None
    fb_defs = ()
    if main_bin is None and job.fallback_plain:
        # the loop-contract instrumentation rejected the (changed) code: decide the same harness by unwinding
        # on a smaller domain instead.  A pass there is only a bounded result => the proof is lost (exit 2).
        res["fallback_used"] = "loop-contract instrumentation failed: " + "; ".join(res["errors"])[-400:]
        res["errors"] = []
        fb_defs = ["-DVERIF_NO_LOOP_CONTRACTS"] + ["-D%s=%s" % kv for kv in job.fallback_plain.get("defines", {}).items()]
        unwind = job.fallback_plain.get("unwind", unwind)
        main_bin = build(False, ".fb", fb_defs, loop_contracts=False)
    if main_bin is None:
        res["status"] = "tool-error"
        return res
    cmd = cbmc_cmd(job, main_bin, solver, unwind=unwind)
    res["checker_cmd"] = " ".join(cmd)
    groups = [None]
    if job.split:
        # property splitting: one solver query per postcondition, one for the loop obligations and
        # job.split chunks for the remaining (safety) obligations; same binary, same flags.
        rc, out, err, secs, to = run(cbmc_cmd(job, main_bin, "sat", unwind=unwind) + ["--show-properties"], 300)
        try:
            plist = [p["name"] for item in json.loads(out) if "properties" in item for p in item["properties"]]
        except Exception:
            plist = []
        if plist:
            post = [p for p in plist if ".postcondition." in p]
            loop = [p for p in plist if re.search(r"\.loop_", p)]
            rest = [p for p in plist if p not in set(post) and p not in set(loop)]
            groups = [[p] for p in post]
            if loop:
                groups.append(loop)
            k = max(1, job.split)
            for i in range(k):
                chunk = rest[i::k]
                if chunk:
                    groups.append(chunk)
            res["split_groups"] = len(groups)

    def solve(group):
        c = cbmc_cmd(job, main_bin, solver, props=group, unwind=unwind)
        return run(c, job.timeout, env=solver_env(solver))

    if len(groups) == 1:
        outs = [solve(groups[0])]
    else:
        with ThreadPoolExecutor(max_workers=len(groups)) as ex:
            outs = list(ex.map(solve, groups))
    results, msgs, status = [], [], "success"
    res["seconds"] = sum(o[3] for o in outs)
    res["group_seconds"] = [round(o[3], 1) for o in outs]
    open(base + ".main.json", "w").write("\n".join(o[1] for o in outs))
    for (rc, out, err, secs, to) in outs:
        if to:
            res["status"] = "timeout"
            res["errors"].append("cbmc timed out after %ds" % job.timeout)
            return res
        r1, m1, st1 = parse_cbmc_json(out)
        if st1 == "error" or any(x.get("status") == "ERROR" for x in (r1 or [])):
            res["status"] = "tool-error"
            res["errors"].append("cbmc reported an internal error (e.g. solver out of memory): " + "; ".join(m for m in m1 if "memory" in m or "rror" in m)[:300])
            return res
        if r1 is None or st1 is None or (not r1 and st1 != "success"):
            res["status"] = "tool-error"
            res["errors"].append("cbmc gave no result list (rc=%s): %s" % (rc, (err or out)[-1500:]))
            return res
        results += r1; msgs += m1
        if st1 != "success":
            status = st1
    res["messages_ignoring"] = [m for m in msgs if "ignoring" in m]
    res["obligations"] = len(results)
    for r in results:
        st = r.get("status")
        if st == "SUCCESS":
            res["discharged"] += 1
        else:
            entry = {"property": r.get("property"), "status": st, "description": r.get("description"),
                     "location": (r.get("sourceLocation") or {})}
            if is_proof_internal(r):
                res["internal_failed"].append(entry)
            else:
                res["failed"].append(entry)
    names = [r.get("property", "") for r in results]
    res["n_post"] = sum(1 for n in names if ".postcondition." in n)
    res["n_lis"] = sum(1 for n in names if ".loop_invariant_step." in n)
    res["n_unwind"] = sum(1 for n in names if ".unwind." in n)
    res["samples"] = [{"property": r.get("property"), "description": r.get("description"), "status": r.get("status")}
                      for r in results if ".postcondition." in r.get("property", "") or "assertion" in r.get("property", "")][:3]
    if job.mode == "contract" and res["n_post"] < job.min_post:
        res["status"] = "vacuous"
        res["errors"].append("expected >= %d postcondition obligations, found %d" % (job.min_post, res["n_post"]))
    if res["n_lis"] < job.min_lis:
        # fewer loop-invariant obligations than on the pinned tree: the function lost a loop (a loop WITHOUT contract would not
        # terminate symbolic execution and end as a time-out).  Recorded, not fatal: the function-level obligations decide.
        res["warnings"] = res.get("warnings", []) + ["expected >= %d loop_invariant_step obligations, found %d" % (job.min_lis, res["n_lis"])]
    # vacuity run
    if job.canary_from:
        # same contract and harness are checked for reachability by the sibling job on a sub-domain
        res["canary"] = "by sibling job " + job.canary_from
        res["wall"] = time.time() - t0
        res["_bins"] = {"main": main_bin}
        return res
    can_bin = build(True, ".c", fb_defs, loop_contracts=not fb_defs)
    if can_bin is None:
        res["status"] = "tool-error"
        return res
    # vacuity run: only the canary, on the fastest model finder (cadical + formula slicing)
    canary_id = job.entry + ".assertion.1"
    rc, out, err, secs, to = run(["cbmc", "--no-standard-checks", "--show-properties", "--json-ui", can_bin], 300)
    try:
        for item in json.loads(out):
            for p in item.get("properties", []) if isinstance(item, dict) else []:
                if p.get("description") == "canary" and p.get("name", "").startswith(job.entry + "."):
                    canary_id = p["name"]
    except Exception:
        pass
    ccmd = ["cbmc"] + (MALLOC_FLAGS if getattr(job, "malloc_may_fail", True) else ["--no-malloc-may-fail"]) + ["--no-standard-checks", "--slice-formula", "--sat-solver", "cadical", "--json-ui",
                                      "--property", canary_id]
    if job.objbits:
        ccmd += ["--object-bits", str(job.objbits)]
    if unwind is not None:
        ccmd += ["--unwind", str(unwind), "--no-unwinding-assertions"]
    if job.unwindset:
        ccmd += ["--unwindset", job.unwindset]
    ccmd += job.extra_cbmc + [can_bin]
    rc, out, err, secs2, to = run(ccmd, job.timeout, env=solver_env(solver))
    res["seconds"] += secs2
    open(base + ".canary.json", "w").write(out)
    if to:
        res["canary"] = "timeout"
        if res["status"] == "ok":
            res["status"] = "timeout"
        res["errors"].append("canary run timed out")
    else:
        cres, _, cstatus = parse_cbmc_json(out)
        can = [r for r in (cres or []) if r.get("description") == "canary"]
        if not can:
            res["canary"] = "missing"
            if res["status"] == "ok":
                res["status"] = "tool-error"
            res["errors"].append("canary property not found in vacuity run: " + (err or out)[-500:])
        elif all(r.get("status") == "FAILURE" for r in can):
            res["canary"] = "reachable"
        else:
            res["canary"] = "unreachable"
            if res["status"] == "ok":
                res["status"] = "vacuous"
            res["errors"].append("canary not reachable: contradictory preconditions or the function cannot return")
    res["wall"] = time.time() - t0
    res["_bins"] = {"main": main_bin, "canary": can_bin}
    return res


def trace_for(job, binary, prop, solver, timeout, unwind=None):
    cmd = cbmc_cmd(job, binary, solver, props=[prop], trace=True, unwind=unwind)
    rc, out, err, secs, to = run(cmd, timeout, env=solver_env(solver))
    if to:
        return None, "trace run timed out"
    results, msgs, status = parse_cbmc_json(out)
    for r in results or []:
        if r.get("property") == prop and r.get("status") == "FAILURE":
            return r.get("trace") or [], None
    return None, "property not refuted in trace run"


def trace_values(trace):
    """Flatten a cbmc JSON trace into {lhs: last value string} for harness-level assignments."""
    vals = {}
    for st in trace:
        if st.get("stepType") != "assignment":
            continue
        lhs = st.get("lhs")
        v = st.get("value") or {}
        if lhs is None:
            continue
        if "data" in v:
            vals[lhs] = v["data"]
        elif "elements" in v or "members" in v:
            vals[lhs] = v
        else:
            vals[lhs] = v.get("name")
    return vals


def run_jobs(jobs, tier, builddir, nproc, log):
    order = sorted(jobs, key=lambda j: -getattr(j, "cost", 10))
    results = {}
    def one(j):
        maxw = j.maxw_for(tier)
        solver = j.solver_for(tier)
        log("  start %-40s [%s, MAXW=%s, %s]" % (j.name, j.mode, maxw, solver))
        r = execute(j, tier, builddir, maxw, solver, log)
        log("  done  %-40s %-10s %d/%d obligations, %.1fs%s%s" % (j.name, r["status"], r["discharged"], r["obligations"], r["seconds"],
            (" groups=" + str(r.get("group_seconds"))) if r.get("split_groups") else "",
            (" FAILED: " + ",".join(f["property"] for f in (r["failed"] + r["internal_failed"])[:4])) if (r["failed"] or r["internal_failed"]) else ""))
        return j.name, r
    # job threads only orchestrate; the number of concurrent tool processes is bounded by CPU_SLOTS
    with ThreadPoolExecutor(max_workers=max(nproc * 3, 8)) as ex:
        for name, r in ex.map(one, order):
            results[name] = r
    return results
