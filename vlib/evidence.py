"""Evidence writer (EVIDENCE.schema.json): what this run actually covered."""
import json, os, re, subprocess

TRUSTED_COMMON = [
    "cbmc 6.11.0 front end (gcc mode, LP64), DFCC contract instrumentation, SAT (minisat2) / SMT back ends",
    "machine arithmetic: unsigned arithmetic wraps (C semantics), signed overflow / shifts / bounds / pointers are checked",
    "compiler correctness and that the production -O2 object code implements the C semantics cbmc assigns are not verified",
]

FAMILY_ASSUMPTIONS = {
    "distances": [
        "explicit small states: matrices of exactly NB objects (one job per size), lists of <= ND structures, exact-size heap arrays; objects are harness objects with a valid type (0 <= type < HWLOC_OBJ_TYPE_MAX) and subtype NULL / \"NVSwitch\" / any string <= 9 chars",
        "the object look-ups of refresh_one (hwloc_get_pu_obj_by_os_index, hwloc_get_numanode_obj_by_os_index, hwloc_get_obj_by_type_and_gp_index) and hwloc_get_depth_type are table stubs (/verif/include/distances.model.h): distances.c is verified against 'a function of (type,index)'; the real look-ups walk the tree (C09, not claimed)",
        "hwloc__reconnect is a no-op stub; grouping (hwloc__groups_by_distances) is switched off in the add harness; ids of committed structures are assumed pairwise distinct in release_remove (they come from one counter)",
        "malloc may fail; strcmp/strdup/memcpy/free as modelled by cbmc; LINKS is decided for bounded values only (64-bit division)",
        "not decided: grouping, restrict/dup/XML/shmem interleavings through the real tree, hwloc_distances_obj_* inline helpers",
    ],
    "synthetic": [
        "explicit small object graphs for the composite exporters (concrete shapes per job: symbolic links would make every loop run to the unwinding bound); snprintf C99 contract stub; destination 0..BUFMAX bytes inside a guarded arena",
        "assume-guarantee inside the file: hwloc__export_synthetic_indexes is checked against the snprintf-style contract on levels of 1..4 objects and replaced by that contract (goto-instrument --replace-calls) in its callers' harnesses",
        "external functions as contract stubs (drivers/synthetic.drv.c): getenv -> NULL, hwloc_type_sscanf (any valid type; cache depth 1..5 tied to the type), hwloc_obj_type_string / hwloc_obj_type_snprintf, strtoul family (over-approximating stub, or exact decimal parser for the structured descriptions), strspn/strcspn/strncasecmp models, memmove as an element-wise backward copy of level entries",
        "not decided: hwloc__look_synthetic (object creation through the core insertion code), faithful build (arities, index orderings in the resulting tree), export/import round trip, the v1 pre-check of hwloc_topology_export_synthetic",
    ],
    "xmlimport": [
        "the XML backend is replaced by the executable contract of the state API of include/private/xml.h (drivers/xml.drv.c): next_attr / find_child / get_content / close_* deliver ANY sequence of attributes (names from a pool of every known name + an unknown one, arbitrary short values), children and contents; a declared content length is not assumed to equal strlen",
        "strtoul / strtoull: value <= 7, end pointer anywhere in the string; atoi: any int; hwloc_type_sscanf: any valid type or -1; hwloc_internal_distances_add_by_index: contract stub that checks the sizes of the arrays it receives and takes ownership",
        "bounded: <= 5 attributes per element, <= 3 children, values <= 2 chars, contents <= 4 chars; the nolibxml scanners that implement the API are checked separately (same property)",
    ],
    "dup": [
        "allocations succeed in these jobs (cbmc --no-malloc-may-fail): hwloc does not handle allocation failure on the dup path (hwloc_topology_setup_defaults dereferences unchecked malloc results), those paths are not decided",
        "sets are abstract records 'duplicate of X' (drivers/dup.drv.c); the real hwloc_bitmap_tma_dup is proved under C03 (fresh block, equal abstract value); hwloc_internal_{distances,memattrs,cpukinds}_dup are logging stubs in the hwloc__topology_dup job (distances_dup has its own job); component / PCI / distances / memattrs / cpukinds init are no-op stubs",
        "explicit small states: a topology made of one childless Machine object; the recursion of hwloc__duplicate_object over children and the linking of cousins / siblings are not decided",
    ],
    "nolibxml": ["strspn model (/verif/stubs/strspn.h); cbmc's strchr/strcmp/strncmp/strlen models; the buffer is BL arbitrary bytes + NUL allocated with its exact size; next_attr assumes the invariant find_child is shown to establish (attribute text ends before the final byte)"],
    "base64": ["C-locale isspace (driver), cbmc's strchr model; exact-size malloc'ed buffers"],
    "printers": ["snprintf C99 contract stub (pieces <= 24 chars); explicit bitmap object with NW stored words; guarded arena for the destination"],
    "parsers": ["strtoul contract stub (end pointer inside the string, value arbitrary); abstract realloc; cbmc's strchr/strncmp/strlen/memcpy models"],
    "memattrs": [
        "explicit small states: one attribute, <= 4 targets / initiators with arbitrary values, cache marked valid (refresh is not run); strcmp/strdup/realloc as modelled by cbmc",
        "not decided: store/lookup semantics of set_value/get_value, initiator matching by cpuset, convenience attributes, local NUMA node queries, refresh/restrict/dup/XML",
    ],
    "cpukinds": [
        "the bitmap functions are replaced by the exact set operations on an 8-PU universe (/verif/include/cpukinds.model.h; one PU per Venn region of <= 3 disjoint kinds and one new set); the real implementations are verified for arbitrary widths under C03",
        "bounded: at most 3 existing kinds, empty info lists; allocation failure of hwloc_bitmap_alloc is not modelled (cpukinds.c does not check it)",
        "not decided: info accumulation, ranking / efficiencies, restrict / dup / XML interleavings",
    ],
    "shmem": [
        "hwloc__topology_dup is replaced by its allocation contract (a ghost sequence of 3 block requests, the same in the length pass and the write pass: dup is assumed deterministic on an unchanged topology)",
        "system calls (lseek, read, write, ftruncate, mmap, munmap, sysconf) are nondeterministic stubs; a successful mmap at the requested address is a 16 KiB object",
        "what adopt() does after the ABI check (copying the topology struct, hooks, infos) and equality of the adopted copy are not decided",
    ],
    "guard": [
        "bitmaps are abstract version counters here (/verif/include/topology.model.h): hwloc_bitmap_intersects returns a ghost fact and logs its arguments, hwloc_bitmap_and/copy bump the destination's version; the real bitmap functions are verified under C03",
        "assumed contract for hwloc_free_unlinked_object (assigns nothing that belongs to the topology) where it is replaced",
        "only the error / refusal paths are decided: what a successful restrict/allow/insert does to the object tree is not applicable (DESIGN.md section 6)",
    ],
    "bind": [
        "bitmap predicates (iszero, isincluded, copy, alloc/free) and the root-set getters are replaced by contract stubs over ghost facts (/verif/include/bind.model.h); their real implementations are verified under C03",
        "hwloc_cpuset_to_nodeset / hwloc_cpuset_from_nodeset (inline helpers of helper.h, C09) are replaced by contract stubs: the two call sites in bind.c are redirected by #define",
        "OS hooks are nondeterministic stubs (any return value, any errno); hwloc_bitmap_alloc never fails in the model (bind.c does not check it either)",
        "the live-system clauses of C10 (kernel round trip, load restores the binding) are OS behaviour and not decided",
    ],
    "traversal": [
        "snprintf is replaced by its C99 contract in stub form (/verif/stubs/snprintf.h): returns -1 or a length <= PIECE_MAX, writes only the NUL, a first byte and one ghost byte",
        "destination buffers are 0..BUFMAX (64) bytes inside a guarded arena; hwloc_pci_class_string is an external stub",
        "goto-instrument --apply-loop-contracts makes all statics nondeterministic: the OS-device names table is arbitrary in these proofs (an over-approximation)",
    ],
    "bitmap": [
        "abstract realloc stub /verif/stubs/realloc.h (NULL, or fresh block with arbitrary contents except ghost words g_k,g_k2; over-approximates libc realloc)",
        "abstract memcpy stub /verif/stubs/memcpy_words.h for word arrays (checks validity/no-overlap, preserves ghost words only)",
        "malloc may fail (--malloc-may-fail --malloc-fail-null); free as modelled by cbmc",
        "__builtin_ffsl / __builtin_popcountl as implemented by cbmc; hwloc_flsl is the real hwloc_flsl_manual",
        "domain: bitmap storage <= MAXW words (every bit index < 64*MAXW), stated as requires clauses",
    ],
}


def scan_assumptions(here, drivers):
    """mechanical scan for __CPROVER_assume in contracts, stubs and harnesses used by these drivers"""
    found = []
    for sub in ("contracts", "stubs", "harness", "include", "drivers"):
        d = os.path.join(here, sub)
        if not os.path.isdir(d):
            continue
        for f in sorted(os.listdir(d)):
            p = os.path.join(d, f)
            try:
                txt = open(p).read()
            except Exception:
                continue
            for i, line in enumerate(txt.split("\n"), 1):
                if "__CPROVER_assume" in line and not line.lstrip().startswith(("*", "/*", "//")):
                    found.append("%s/%s:%d: %s" % (sub, f, i, line.strip()[:120]))
    return found


def repo_head():
    try:
        h = subprocess.run(["git", "-C", "/repo", "rev-parse", "--short", "HEAD"], capture_output=True, text=True).stdout.strip()
        d = subprocess.run(["git", "-C", "/repo", "status", "--porcelain", "--untracked-files=no"], capture_output=True, text=True).stdout.strip()
        return h + ("+dirty" if d else "")
    except Exception:
        return "unknown"


def write(here, prop, tier, seed, jobs, results, violations, known_hits, undecided, wall, suffix=""):
    proof_obl = proof_dis = 0
    bounded = []
    functions = []
    samples = []
    families = set()
    cmds = []
    solver_s = 0.0
    for j in jobs:
        r = results.get(j.name)
        if not r:
            continue
        families.add(j.family)
        solver_s += r.get("seconds", 0.0)
        entry = {"job": j.name, "function": r["function"], "mode": r["mode"], "label": r["label"], "back_end": r["solver"],
                 "obligations": r["obligations"], "discharged": r["discharged"],
                 "postconditions": r.get("n_post", 0), "loop_invariant_steps": r.get("n_lis", 0),
                 "unwinding_assertions": r.get("n_unwind", 0), "unwind": r.get("unwind"),
                 "canary": r.get("canary"), "status": r["status"], "solver_s": round(r.get("seconds", 0.0), 1),
                 "replaced_by_contract": r.get("replaced", []), "MAXW": r.get("maxw"), "note": r.get("note", "")}
        if r.get("removed_bodies"):
            entry["callee_bodies_removed"] = r["removed_bodies"]
        if r.get("messages_ignoring"):
            entry["ignored_by_backend"] = r["messages_ignoring"][:5]
        if j.label == "bounded":
            bounded.append(entry)
        elif r["status"].startswith("smt-"):
            entry["note"] += " -- NOT FINISHED in this run (optional SMT proof); not counted"
            bounded.append(entry)
        else:
            functions.append(entry)
            proof_obl += r["obligations"]
            proof_dis += r["discharged"]
        if r.get("samples") and len(samples) < 6:
            samples.append({"job": j.name, "obligations": r["samples"][:2]})
        if r.get("checker_cmd") and len(cmds) < 1:
            cmds.append(r["checker_cmd"])
    assumptions = []
    for f in sorted(x for x in families if x):
        assumptions += FAMILY_ASSUMPTIONS.get(f, [])
    rb = sorted({fn for j in jobs for fn in getattr(j, "remove_bodies", [])})
    if rb:
        assumptions.append("callee bodies removed in plain runs (goto-instrument --remove-function-body: result nondeterministic, NO side effect assumed): " + ", ".join(rb))
    assumed = scan_assumptions(here, None)
    if assumed:
        assumptions.append("__CPROVER_assume occurrences in /verif (mechanical scan): " + "; ".join(assumed[:40]))
    else:
        assumptions.append("mechanical scan: no __CPROVER_assume in /verif contracts, stubs, harnesses")
    if bounded:
        assumptions.append("bounded stand-ins (NOT counted under obligations/discharged): " +
                           ", ".join("%s[%s]" % (b["job"], b["note"] or ("unwind %s" % b["unwind"])) for b in bounded))
    all_bounded = bool(bounded) and not functions
    if all_bounded:      # a property decided only by bounded stand-ins is never reported at proof level
        proof_obl = sum(b["obligations"] for b in bounded); proof_dis = sum(b["discharged"] for b in bounded)
    ev = {
        "property_id": prop, "tier": tier, "seed": seed, "level": "other" if all_bounded else "proof",
        "coverage": {
            "obligations": proof_obl, "discharged": proof_dis,
            "checker_cmd": (cmds[0] if cmds else "cbmc") + "   (one of %d runs; each preceded by goto-cc on the real /repo source and goto-instrument --dfcc --enforce-contract <fn> --apply-loop-contracts)" % len(jobs),
            "trusted_base": TRUSTED_COMMON,
            "functions_under_contract": functions,
            "bounded_standins": bounded,
            "bounded_obligations": sum(b["obligations"] for b in bounded),
            "bounded_discharged": sum(b["discharged"] for b in bounded),
            "samples": samples,
            "solver_s_total": round(solver_s, 1),
            "repo_head": repo_head(),
            "undecided": [{"job": n, "status": s, "why": w} for n, s, w in undecided],
            "known_findings_hit": [kf.get("id", "") for kf, _ in known_hits],
            "explanation": ("BOUNDED STAND-IN ONLY (no unbounded proof for this property): " if all_bounded else "") + "Every obligation is generated by cbmc/goto-instrument from /repo's current sources "
                           "(driver TU #includes the real .c file; contracts attached by re-declaration, loop contracts through "
                           "HWLOC_VERIF_LOOP anchors). Counts are read from cbmc's JSON result list of this run.",
        },
        "assumptions": assumptions,
        "wall_s": round(wall, 1),
        "violations": len(violations),
    }
    evdir = os.environ.get("VERIF_EVIDENCE_DIR") or os.path.join(here, "evidence")
    os.makedirs(evdir, exist_ok=True)
    with open(os.path.join(evdir, prop + suffix + ".json"), "w") as f:
        json.dump(ev, f, indent=1)
