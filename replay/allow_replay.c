/* Native replay for the hwloc_topology_allow error-path clause of C02 (finding F3):
 * a failing hwloc_topology_allow() must leave the allowed sets unchanged.
 * usage: allow_replay  (uses a synthetic topology; exits 1 when the clause is violated) */
#include <hwloc.h>
#include <stdio.h>
#include <errno.h>
int main(void)
{
  hwloc_topology_t t; hwloc_bitmap_t cs = hwloc_bitmap_alloc(), ns = hwloc_bitmap_alloc(), before_c, before_n; int rc, bad = 0;
  hwloc_topology_init(&t);
  hwloc_topology_set_flags(t, HWLOC_TOPOLOGY_FLAG_INCLUDE_DISALLOWED);
  hwloc_topology_set_synthetic(t, "node:2 pu:2");
  hwloc_topology_load(t);
  before_c = hwloc_bitmap_dup(hwloc_topology_get_allowed_cpuset(t));
  before_n = hwloc_bitmap_dup(hwloc_topology_get_allowed_nodeset(t));
  hwloc_bitmap_only(cs, 0);      /* intersects the topology cpuset */
  hwloc_bitmap_only(ns, 99);     /* does not intersect the topology nodeset */
  errno = 0;
  rc = hwloc_topology_allow(t, cs, ns, HWLOC_ALLOW_FLAG_CUSTOM);
  if (rc == -1 && (!hwloc_bitmap_isequal(before_c, hwloc_topology_get_allowed_cpuset(t)) || !hwloc_bitmap_isequal(before_n, hwloc_topology_get_allowed_nodeset(t)))) {
    char *a, *b; hwloc_bitmap_asprintf(&a, before_c); hwloc_bitmap_asprintf(&b, hwloc_topology_get_allowed_cpuset(t));
    printf("REPRODUCED: hwloc_topology_allow(CUSTOM, cpuset={0}, nodeset={99}) returned -1 (errno %d) but the allowed cpuset changed from %s to %s\n", errno, a, b);
    bad = 1;
  }
  if (!bad) printf("NOT-REPRODUCED (rc=%d)\n", rc);
  return bad;
}
