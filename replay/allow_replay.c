/* Native replay for the hwloc_topology_allow clauses of C02 on the real library: the verifier's counterexample
 * fixes the clause; the inputs (flag word, NULL / intersecting / non-intersecting cpuset and nodeset) form a small finite
 * space which is enumerated on a synthetic topology loaded with INCLUDE_DISALLOWED.
 * exit 1 + "REPRODUCED: ..." when a failing call changed an allowed set, or an invalid combination was accepted. */
#include <hwloc.h>
#include <stdio.h>
#include <string.h>
#include <errno.h>
int main(void)
{
  static const char *csets[] = { NULL, "0", "0-3", "100", "100-" };            /* NULL, intersecting x2, not intersecting x2 */
  static const char *nsets[] = { NULL, "0", "0-1", "5", "99", "2-" };          /* topology nodeset is {0,1}: "5" is a PU index but no node */
  unsigned long flags; unsigned ci, ni; int bad = 0;
  for (flags = 0; flags <= 8 && !bad; flags++) for (ci = 0; ci < 5 && !bad; ci++) for (ni = 0; ni < 6 && !bad; ni++) {
    hwloc_topology_t t; hwloc_bitmap_t cs = NULL, ns = NULL, bc, bn; int rc, cs_ok, ns_ok, expect_fail;
    hwloc_topology_init(&t); hwloc_topology_set_flags(t, HWLOC_TOPOLOGY_FLAG_INCLUDE_DISALLOWED);
    hwloc_topology_set_synthetic(t, "node:2 core:2 pu:2"); hwloc_topology_load(t);
    if (csets[ci]) { cs = hwloc_bitmap_alloc(); hwloc_bitmap_list_sscanf(cs, csets[ci]); }
    if (nsets[ni]) { ns = hwloc_bitmap_alloc(); hwloc_bitmap_list_sscanf(ns, nsets[ni]); }
    bc = hwloc_bitmap_dup(hwloc_topology_get_allowed_cpuset(t)); bn = hwloc_bitmap_dup(hwloc_topology_get_allowed_nodeset(t));
    cs_ok = !cs || hwloc_bitmap_intersects(cs, hwloc_topology_get_topology_cpuset(t));
    ns_ok = !ns || hwloc_bitmap_intersects(ns, hwloc_topology_get_topology_nodeset(t));
    errno = 0;
    rc = hwloc_topology_allow(t, cs, ns, flags);
    expect_fail = (flags != HWLOC_ALLOW_FLAG_ALL && flags != HWLOC_ALLOW_FLAG_LOCAL_RESTRICTIONS && flags != HWLOC_ALLOW_FLAG_CUSTOM)
                  || ((flags == HWLOC_ALLOW_FLAG_ALL || flags == HWLOC_ALLOW_FLAG_LOCAL_RESTRICTIONS) && (cs || ns))
                  || (flags == HWLOC_ALLOW_FLAG_CUSTOM && (!cs_ok || !ns_ok));
    if (rc == -1 && (!hwloc_bitmap_isequal(bc, hwloc_topology_get_allowed_cpuset(t)) || !hwloc_bitmap_isequal(bn, hwloc_topology_get_allowed_nodeset(t)))) {
      printf("REPRODUCED: hwloc_topology_allow(flags=%#lx, cpuset=%s, nodeset=%s) returned -1 (errno %d) but an allowed set changed\n", flags, csets[ci] ? csets[ci] : "NULL", nsets[ni] ? nsets[ni] : "NULL", errno);
      bad = 1;
    } else if (expect_fail && flags != HWLOC_ALLOW_FLAG_LOCAL_RESTRICTIONS && (rc != -1 || errno != EINVAL)) {
      printf("REPRODUCED: hwloc_topology_allow(flags=%#lx, cpuset=%s, nodeset=%s) returned %d (errno %d), expected -1/EINVAL\n", flags, csets[ci] ? csets[ci] : "NULL", nsets[ni] ? nsets[ni] : "NULL", rc, errno);
      bad = 1;
    }
    hwloc_topology_destroy(t);
  }
  if (!bad) printf("NOT-REPRODUCED\n");
  return bad;
}
