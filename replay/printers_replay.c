/* Native replay for the bitmap printers (C04) on the real library: checks the snprintf contract with guard
 * bytes against the full text obtained with a large buffer.
 * usage: printers_replay FN SIZE USE_NULL INFINITE COUNT w0 w1 ...   (FN = hwloc_bitmap_snprintf | _list_ | _taskset_)
 * exit 1 + "REPRODUCED: ..." on a contract violation, 0 otherwise. */
#include <hwloc.h>
#include <stdio.h>
#include <stdlib.h>
#include <string.h>
typedef int (*printer_t)(char *, size_t, hwloc_const_bitmap_t);
int main(int argc, char **argv)
{
  printer_t fn; size_t size; int usenull, inf; unsigned count, i; unsigned long *w; hwloc_bitmap_t set;
  char full[1 << 16]; char *arena; int need, r; size_t k; const size_t G = 64;
  if (argc < 6) return 3;
  fn = !strcmp(argv[1], "hwloc_bitmap_snprintf") ? hwloc_bitmap_snprintf : !strcmp(argv[1], "hwloc_bitmap_list_snprintf") ? hwloc_bitmap_list_snprintf : hwloc_bitmap_taskset_snprintf;
  size = strtoul(argv[2], 0, 0); usenull = atoi(argv[3]); inf = atoi(argv[4]); count = strtoul(argv[5], 0, 0);
  if (count < 1 || count > 4096 || argc < 6 + (int)count) return 3;
  w = calloc(count, sizeof(*w));
  for (i = 0; i < count; i++) w[i] = strtoul(argv[6 + i], 0, 0);
  set = hwloc_bitmap_alloc();
  if (inf) { for (i = 0; i < count; i++) w[i] = ~w[i]; }
  hwloc_bitmap_from_ulongs(set, count, w);
  if (inf) hwloc_bitmap_not(set, set);          /* same stored words, infinite tail */
  need = fn(full, sizeof(full), set);
  if (need < 0 || (size_t)need >= sizeof(full)) { printf("NOT-REPRODUCED (text too long for the replay)\n"); return 0; }
  if (size == 0 && usenull) { r = fn(NULL, 0, set); if (r != need) { printf("REPRODUCED: %s(NULL,0) returned %d, full text needs %d\n", argv[1], r, need); return 1; } printf("NOT-REPRODUCED\n"); return 0; }
  arena = malloc(size + 2 * G); memset(arena, 0x5a, size + 2 * G);
  r = fn(arena + G, size, set);
  for (k = 0; k < size + 2 * G; k++) if ((k < G || k >= G + size) && arena[k] != 0x5a) { printf("REPRODUCED: %s wrote byte %#x at offset %ld of a %lu-byte buffer (text \"%s\")\n", argv[1], (unsigned char)arena[k], (long)k - (long)G, (unsigned long)size, full); return 1; }
  if (r != need) { printf("REPRODUCED: %s returned %d with buflen %lu, the untruncated text \"%s\" needs %d\n", argv[1], r, (unsigned long)size, full, need); return 1; }
  if (size > 0) {
    size_t l = strnlen(arena + G, size);
    if (l >= size) { printf("REPRODUCED: %s left no NUL in a %lu-byte buffer\n", argv[1], (unsigned long)size); return 1; }
    if (strncmp(arena + G, full, l) || l != ((size_t)need < size ? (size_t)need : size - 1)) { printf("REPRODUCED: truncated text \"%.*s\" is not the %lu-char prefix of \"%s\"\n", (int)l, arena + G, (unsigned long)(size - 1), full); return 1; }
  }
  printf("NOT-REPRODUCED\n");
  return 0;
}
