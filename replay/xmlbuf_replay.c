/* Native replay for the C06 nolibxml obligations: truncated / hostile document heads and bodies are loaded through
 * hwloc_topology_set_xmlbuffer() + hwloc_topology_load() with the built-in parser (HWLOC_LIBXML_IMPORT=0), each in a child
 * process; a crashed child reproduces the violation.  Exit 1 = reproduced, 0 = not reproduced. */
#include <hwloc.h>
#include <stdio.h>
#include <stdlib.h>
#include <string.h>
#include <unistd.h>
#include <sys/wait.h>

static int try_buf(const char *x)
{
  pid_t pid = fork(); int st;
  if (!pid) {
    hwloc_topology_t t; size_t n = strlen(x) + 1; char *copy = malloc(n);   /* exact-size heap copy: over-reads are visible to malloc checkers */
    memcpy(copy, x, n);
    fclose(stderr);
    hwloc_topology_init(&t);
    if (!hwloc_topology_set_xmlbuffer(t, copy, (int)n)) hwloc_topology_load(t);
    hwloc_topology_destroy(t);
    _exit(0);
  }
  waitpid(pid, &st, 0);
  if (!WIFEXITED(st) || WEXITSTATUS(st)) {
    printf("REPRODUCED: set_xmlbuffer+load of \"%s\": child %s %d\n", x, WIFSIGNALED(st) ? "killed by signal" : "exit status", WIFSIGNALED(st) ? WTERMSIG(st) : WEXITSTATUS(st));
    return 1;
  }
  return 0;
}

int main(void)
{
  static const char *heads[] = { "<topology version=\"2.0\"", "<topology version=\"2.0", "<topology version=\"2.", "<topology version=\"2", "<topology", "<topology>", "<root>", "<roo", "",
                                 "<?xml version=\"1.0\"?>\n<topology version=\"2.0\"", "<?xml version=\"1.0\"?>", "<!DOCTYPE topology SYSTEM \"hwloc2.dtd\">\n<topology version=\"3.0\"" };
  static const char *tails[] = { "", " ", "x", "/", "<", "<o", "\"", ">", "><", "></" };
  unsigned i, j; int bad = 0; char s[256];
  setenv("HWLOC_LIBXML_IMPORT", "0", 1);
  for (i = 0; i < sizeof(heads) / sizeof(*heads) && !bad; i++)
    for (j = 0; j < sizeof(tails) / sizeof(*tails) && !bad; j++) {
      snprintf(s, sizeof(s), "%s%s", heads[i], tails[j]);
      bad |= try_buf(s);
    }
  if (!bad) printf("xmlbuf: no buffer crashed the loader\n");
  return bad;
}
