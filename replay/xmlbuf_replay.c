/* Native replay for the C06 nolibxml obligations: truncated / hostile document heads and bodies are loaded through
 * hwloc_topology_set_xmlbuffer() + hwloc_topology_load() with the built-in parser (HWLOC_LIBXML_IMPORT=0), each in a child
 * process; a crashed child reproduces the violation.  Exit 1 = reproduced, 0 = not reproduced. */
#include <hwloc.h>
#include <stdio.h>
#include <stdlib.h>
#include <string.h>
#include <unistd.h>
#include <sys/wait.h>

static void udcb(hwloc_topology_t t, hwloc_obj_t o, const char *name, const void *buf, size_t len) { (void)t; (void)o; (void)name; (void)buf; (void)len; }
static int with_cb;
static int try_buf(const char *x)
{
  pid_t pid = fork(); int st;
  if (!pid) {
    hwloc_topology_t t; size_t n = strlen(x) + 1; char *copy = malloc(n);   /* exact-size heap copy: over-reads are visible to malloc checkers */
    memcpy(copy, x, n);
    fclose(stderr);
    hwloc_topology_init(&t);
    if (with_cb) hwloc_topology_set_userdata_import_callback(t, udcb);
    if (!hwloc_topology_set_xmlbuffer(t, copy, (int)n)) hwloc_topology_load(t);
    hwloc_topology_destroy(t);
    _exit(0);
  }
  waitpid(pid, &st, 0);
  if (!WIFEXITED(st) || WEXITSTATUS(st)) {
    printf("REPRODUCED: set_xmlbuffer+load of \"%s\": child %s %d\n", x, WIFSIGNALED(st) ? "killed by signal" : "exit status", WIFSIGNALED(st) ? WTERMSIG(st) : WEXITSTATUS(st));
    return 1;
  }
  return 0;
}

int main(void)
{
  static const char *heads[] = { "<topology version=\"2.0\"", "<topology version=\"2.0", "<topology version=\"2.", "<topology version=\"2", "<topology", "<topology>", "<root>", "<roo", "",
                                 "<?xml version=\"1.0\"?>\n<topology version=\"2.0\"", "<?xml version=\"1.0\"?>", "<!DOCTYPE topology SYSTEM \"hwloc2.dtd\">\n<topology version=\"3.0\"" };
  static const char *tails[] = { "", " ", "x", "/", "<", "<o", "\"", ">", "><", "></" };
  unsigned i, j; int bad = 0; char s[256];
  setenv("HWLOC_LIBXML_IMPORT", "0", 1);
  for (i = 0; i < sizeof(heads) / sizeof(*heads) && !bad; i++)
    for (j = 0; j < sizeof(tails) / sizeof(*tails) && !bad; j++) {
      snprintf(s, sizeof(s), "%s%s", heads[i], tails[j]);
      bad |= try_buf(s);
    }
  /* complete documents with hostile elements (semantic import code of topology-xml.c) */
  {
#define M "<object type=\"Machine\" os_index=\"0\" cpuset=\"0x3\" complete_cpuset=\"0x3\" allowed_cpuset=\"0x3\" nodeset=\"0x3\" complete_nodeset=\"0x3\" allowed_nodeset=\"0x3\" gp_index=\"1\">"
#define N0 "<object type=\"NUMANode\" os_index=\"0\" cpuset=\"0x1\" complete_cpuset=\"0x1\" nodeset=\"0x1\" complete_nodeset=\"0x1\" gp_index=\"2\" local_memory=\"1048576\"/>"
#define N1 "<object type=\"NUMANode\" os_index=\"1\" cpuset=\"0x2\" complete_cpuset=\"0x2\" nodeset=\"0x2\" complete_nodeset=\"0x2\" gp_index=\"7\" local_memory=\"1048576\"/>"
#define P0 "<object type=\"PU\" os_index=\"0\" cpuset=\"0x1\" complete_cpuset=\"0x1\" nodeset=\"0x1\" complete_nodeset=\"0x1\" gp_index=\"4\"/>"
#define P1 "<object type=\"PU\" os_index=\"1\" cpuset=\"0x2\" complete_cpuset=\"0x2\" nodeset=\"0x2\" complete_nodeset=\"0x2\" gp_index=\"5\"/>"
#define PK0 "<object type=\"Package\" os_index=\"0\" cpuset=\"0x1\" complete_cpuset=\"0x1\" nodeset=\"0x1\" complete_nodeset=\"0x1\" gp_index=\"3\">"
#define PK1 "<object type=\"Package\" os_index=\"1\" cpuset=\"0x2\" complete_cpuset=\"0x2\" nodeset=\"0x2\" complete_nodeset=\"0x2\" gp_index=\"6\">"
#define TREE "<topology version=\"2.0\">" M PK0 N0 P0 "</object>" PK1 N1 P1 "</object></object>"
#define DTAIL "<indexes length=\"3\">0 1</indexes><u64values length=\"11\">10 20 20 10</u64values></distances2></topology>"
    static const char *docs[] = {
      TREE "<distances2 type=\"NUMANode\" nbobjs=\"2\" kind=\"5\" indexing=\"os\" name=\"x\">" DTAIL,
      TREE "<distances2 type=\"NUMANode\" nbobjs=\"2\" kind=\"5\" indexing=\"os\">" DTAIL,                 /* no name, latency kind, v2 */
      TREE "<distances2 type=\"NUMANode\" nbobjs=\"2\" kind=\"9\" indexing=\"os\">" DTAIL,
      TREE "<distances2 nbobjs=\"2\" kind=\"5\">" DTAIL,
      TREE "<distances2 type=\"NUMANode\" nbobjs=\"0\" kind=\"5\" indexing=\"os\">" DTAIL,
      TREE "<distances2 type=\"NUMANode\" nbobjs=\"3\" kind=\"5\" indexing=\"os\">" DTAIL,
    };
    for (i = 0; i < sizeof(docs) / sizeof(*docs) && !bad; i++) bad |= try_buf(docs[i]);
    /* userdata elements, with an import callback; the last bytes of the buffer matter: run under a malloc checker for over-reads */
    {
      static const char *ud[] = { "<topology version=\"2.0\">" M "<userdata length=\"0\">", "<topology version=\"2.0\">" M "<userdata length=\"0\"/>", "<topology version=\"2.0\">" M "<userdata length=\"1\">x",
                                  "<topology version=\"2.0\">" M "<userdata length=\"0\"></userdata>", "<topology version=\"2.0\">" M "<userdata name=\"a\" length=\"0\" encoding=\"base64\">" };
      with_cb = 1;
      for (i = 0; i < sizeof(ud) / sizeof(*ud) && !bad; i++) bad |= try_buf(ud[i]);
      with_cb = 0;
    }
  }
  if (!bad) printf("xmlbuf: no buffer crashed the loader\n");
  return bad;
}
