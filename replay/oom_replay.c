/* Native replay for the allocation-failure obligations of the dup path (C12): malloc/calloc are interposed by this executable
 * (fresh blocks are poisoned with 0xA5 -- their contents are indeterminate in C --, the N-th allocation after arming fails).
 * Scenario: a synthetic topology with two info pairs on the root and a named 4-object distances matrix is duplicated with
 * hwloc_topology_dup() in a child process for every N; a child killed by a signal (free of an indeterminate pointer,
 * double free detected by glibc, ...) reproduces the violation.  Exit 1 = reproduced, 0 = not reproduced. */
#define _GNU_SOURCE
#include <hwloc.h>
#include <stdio.h>
#include <stdlib.h>
#include <string.h>
#include <unistd.h>
#include <sys/wait.h>
extern void *__libc_malloc(size_t); extern void *__libc_calloc(size_t, size_t);
static volatile int armed, fail_at, seen;
void *malloc(size_t n) { void *p; if (armed && ++seen == fail_at) return NULL; p = __libc_malloc(n); if (p && armed) memset(p, 0xA5, n); return p; }
void *calloc(size_t a, size_t b) { if (armed && ++seen == fail_at) return NULL; return __libc_calloc(a, b); }

int main(void)
{
  hwloc_topology_t t, copy; hwloc_obj_t objs[4]; hwloc_uint64_t v[16]; hwloc_distances_add_handle_t h; int i, n, bad = 0, total;
  hwloc_topology_init(&t); hwloc_topology_set_synthetic(t, "pack:2 pu:2"); hwloc_topology_load(t);
  hwloc_obj_add_info(hwloc_get_root_obj(t), "first", "one"); hwloc_obj_add_info(hwloc_get_root_obj(t), "second", "two");
  for (i = 0; i < 4; i++) objs[i] = hwloc_get_obj_by_type(t, HWLOC_OBJ_PU, i);
  for (i = 0; i < 16; i++) v[i] = (i % 5) ? 20 : 10;
  h = hwloc_distances_add_create(t, "verif", HWLOC_DISTANCES_KIND_FROM_USER | HWLOC_DISTANCES_KIND_MEANS_LATENCY, 0);
  if (!h || hwloc_distances_add_values(t, h, 4, objs, v, 0) || hwloc_distances_add_commit(t, h, 0)) { printf("setup failed\n"); return 0; }
  armed = 1; seen = 0; fail_at = 0;
  if (hwloc_topology_dup(&copy, t)) { printf("dup without faults failed\n"); return 0; }
  total = seen; armed = 0; hwloc_topology_destroy(copy);
  for (n = 1; n <= total && !bad; n++) {
    pid_t pid = fork(); int st;
    if (!pid) { fclose(stderr); armed = 1; seen = 0; fail_at = n; if (!hwloc_topology_dup(&copy, t)) { armed = 0; hwloc_topology_destroy(copy); } _exit(0); }
    waitpid(pid, &st, 0);
    if (WIFSIGNALED(st)) { printf("REPRODUCED: hwloc_topology_dup() with allocation #%d of %d failing: child killed by signal %d\n", n, total, WTERMSIG(st)); bad = 1; }
  }
  if (!bad) printf("oom: hwloc_topology_dup() survived a failure of each of its %d allocations\n", total);
  return bad;
}
