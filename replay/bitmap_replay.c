/* Native replay of a verifier counterexample on the REAL /repo/hwloc/bitmap.c
 * against an independent naive oracle (bit-by-bit set semantics over a window
 * plus a tail flag).  Built by the check with
 *     gcc -fsanitize=address,undefined -I/repo/include -I/repo/hwloc -DSRC='"/repo/hwloc/bitmap.c"' bitmap_replay.c
 * usage: bitmap_replay FN ALIAS NB {count alloc inf w0 w1 w2 w3}*NB NS s0.. NM m0..
 * exit 1 + "REPRODUCED: ..." when the real code disagrees with the oracle (or a sanitizer fires),
 * exit 0 + "NOT-REPRODUCED" otherwise, exit 3 on usage problems.
 */
#include SRC
#include <stdio.h>
#include <stdlib.h>
#include <string.h>
#include <unistd.h>
#include <fcntl.h>

#define NBW 40
#define NB (64 * NBW)
typedef struct { unsigned char b[NB]; int tail; } mset;

static void rd(const struct hwloc_bitmap_s *s, mset *m)
{
  unsigned x;
  for (x = 0; x < NB; x++)
    m->b[x] = (x / 64 < s->ulongs_count) ? (unsigned char)((s->ulongs[x / 64] >> (x % 64)) & 1) : (unsigned char)(s->infinite != 0);
  m->tail = s->infinite != 0;
}
static struct hwloc_bitmap_s *mk(unsigned count, unsigned alloc, int inf, const unsigned long *w)
{
  struct hwloc_bitmap_s *s = malloc(sizeof(*s));
  unsigned i;
  if (alloc < count) alloc = count;
  s->ulongs = malloc(alloc * sizeof(unsigned long));
  for (i = 0; i < alloc; i++) s->ulongs[i] = 0xdeadbeefcafef00dUL; /* garbage beyond count */
  for (i = 0; i < count && i < 4; i++) s->ulongs[i] = w[i];
  s->ulongs_count = count; s->ulongs_allocated = alloc; s->infinite = inf;
  return s;
}
static int fails;
#define FAIL(...) do { printf("REPRODUCED: " __VA_ARGS__); printf("\n"); fails++; } while (0)
static void chk_rep(const char *who, const struct hwloc_bitmap_s *s)
{
  if (s->ulongs_count < 1) FAIL("%s: ulongs_count=%u < 1", who, s->ulongs_count);
  if (s->ulongs_count > s->ulongs_allocated) FAIL("%s: count %u > allocated %u", who, s->ulongs_count, s->ulongs_allocated);
  if (s->infinite != 0 && s->infinite != 1) FAIL("%s: infinite=%d", who, s->infinite);
}
static void chk_eq(const char *who, const struct hwloc_bitmap_s *s, const mset *exp)
{
  mset got; unsigned x;
  chk_rep(who, s);
  if (fails) return;
  rd(s, &got);
  if (got.tail != exp->tail) { FAIL("%s: tail is %d, set semantics say %d", who, got.tail, exp->tail); return; }
  for (x = 0; x < NB; x++)
    if (got.b[x] != exp->b[x]) { FAIL("%s: bit %u is %d, set semantics say %d", who, x, got.b[x], exp->b[x]); return; }
}
static long m_first(const mset *m, int pol) { unsigned x; for (x = 0; x < NB; x++) if (m->b[x] == pol) return x; return -1; }
static long m_last(const mset *m, int pol) { long x; if (m->tail == pol) return -1; for (x = NB - 1; x >= 0; x--) if (m->b[x] == pol) return x; return -1; }
static long m_next(const mset *m, long prev, int pol) { long x; for (x = prev + 1; x < NB; x++) if (m->b[x] == pol) return x; return -1; }
static int m_empty(const mset *m) { return !m->tail && m_first(m, 1) < 0; }
static int sgn(long v) { return v < 0 ? -1 : v > 0 ? 1 : 0; }

struct bspec { unsigned c, al; int inf; unsigned long w[4]; };
static int quiet;
static int run_case(const char *fn, int alias, int nb, const struct bspec *BS, const unsigned long *S, const unsigned long *Min)
{
  struct hwloc_bitmap_s *B[3] = { 0, 0, 0 };
  unsigned long M[4];
  mset A, Bm, R, E;
  unsigned x;
  int i;
  fails = 0;
  for (i = 0; i < 4; i++) M[i] = Min[i];
  for (i = 0; i < nb && i < 3; i++) B[i] = mk(BS[i].c, BS[i].al, BS[i].inf, BS[i].w);
#define IS(n) (!strcmp(fn, "hwloc_bitmap_" n))
#define INWIN(v) ((v) < NB - 128)

  if (IS("or") || IS("and") || IS("andnot") || IS("xor")) {
    struct hwloc_bitmap_s *a = B[0], *b = B[1], *r = alias == 1 ? a : alias == 2 ? b : B[2];
    int rc;
    rd(a, &A); rd(b, &Bm);
    for (x = 0; x < NB; x++)
      E.b[x] = IS("or") ? (A.b[x] | Bm.b[x]) : IS("and") ? (A.b[x] & Bm.b[x]) : IS("andnot") ? (A.b[x] & !Bm.b[x]) : (A.b[x] ^ Bm.b[x]);
    E.tail = IS("or") ? (A.tail | Bm.tail) : IS("and") ? (A.tail & Bm.tail) : IS("andnot") ? (A.tail & !Bm.tail) : (A.tail ^ Bm.tail);
    rc = IS("or") ? hwloc_bitmap_or(r, a, b) : IS("and") ? hwloc_bitmap_and(r, a, b) : IS("andnot") ? hwloc_bitmap_andnot(r, a, b) : hwloc_bitmap_xor(r, a, b);
    if (rc != 0) FAIL("%s returned %d", fn, rc);
    chk_eq("result", r, &E);
    if (r != a) chk_eq("operand 1 (must be unchanged)", a, &A);
    if (r != b) chk_eq("operand 2 (must be unchanged)", b, &Bm);
  } else if (IS("not") || IS("copy")) {
    struct hwloc_bitmap_s *a = B[0], *r = alias == 1 ? a : B[1];
    int rc;
    rd(a, &A);
    for (x = 0; x < NB; x++) E.b[x] = IS("not") ? !A.b[x] : A.b[x];
    E.tail = IS("not") ? !A.tail : A.tail;
    rc = IS("not") ? hwloc_bitmap_not(r, a) : hwloc_bitmap_copy(r, a);
    if (rc != 0) FAIL("%s returned %d", fn, rc);
    chk_eq("result", r, &E);
    if (r != a) chk_eq("operand (must be unchanged)", a, &A);
  } else if (IS("dup")) {
    struct hwloc_bitmap_s *r; rd(B[0], &A); r = hwloc_bitmap_dup(B[0]);
    if (!r) FAIL("dup returned NULL"); else chk_eq("result", r, &A);
  } else if (IS("zero") || IS("fill") || IS("_zero") || IS("_fill")) {
    int full = IS("fill") || IS("_fill");
    for (x = 0; x < NB; x++) E.b[x] = full; E.tail = full;
    if (IS("zero")) hwloc_bitmap_zero(B[0]); else if (IS("fill")) hwloc_bitmap_fill(B[0]);
    else if (IS("_zero")) hwloc_bitmap__zero(B[0]); else hwloc_bitmap__fill(B[0]);
    chk_eq("result", B[0], &E);
  } else if (IS("realloc_by_ulongs")) {
    int rc; rd(B[0], &A);
    if (S[0] < 1 || S[0] > NBW - 2) { if (!quiet) printf("NOT-REPRODUCED (out of native window)\n"); return 0; }
    rc = hwloc_bitmap_realloc_by_ulongs(B[0], (unsigned)S[0]);
    if (rc != 0) FAIL("returned %d", rc);
    chk_eq("result (abstract value must be unchanged)", B[0], &A);
    if (B[0]->ulongs_count < S[0]) FAIL("count %u < needed %lu", B[0]->ulongs_count, S[0]);
  } else if (IS("only") || IS("allbut") || IS("set") || IS("clr")) {
    unsigned cpu = (unsigned)S[0]; int rc;
    if (!INWIN(cpu)) { if (!quiet) printf("NOT-REPRODUCED (out of native window)\n"); return 0; }
    rd(B[0], &A); E = A;
    if (IS("only")) { memset(E.b, 0, NB); E.tail = 0; E.b[cpu] = 1; }
    else if (IS("allbut")) { memset(E.b, 1, NB); E.tail = 1; E.b[cpu] = 0; }
    else if (IS("set")) E.b[cpu] = 1; else E.b[cpu] = 0;
    rc = IS("only") ? hwloc_bitmap_only(B[0], cpu) : IS("allbut") ? hwloc_bitmap_allbut(B[0], cpu) : IS("set") ? hwloc_bitmap_set(B[0], cpu) : hwloc_bitmap_clr(B[0], cpu);
    if (rc != 0) FAIL("%s returned %d", fn, rc);
    chk_eq("result", B[0], &E);
  } else if (IS("set_range") || IS("clr_range")) {
    unsigned b = (unsigned)S[0]; int e = (int)(long)S[1], rc; int v = IS("set_range");
    if ((e != -1 && !INWIN((unsigned)e)) || (b <= (unsigned)e && !INWIN(b))) { if (!quiet) printf("NOT-REPRODUCED (out of native window)\n"); return 0; }
    rd(B[0], &A); E = A;
    if ((unsigned)e >= b) {
      for (x = b; x < NB && (e == -1 || x <= (unsigned)e); x++) E.b[x] = v;
      if (e == -1) E.tail = v;
    }
    rc = v ? hwloc_bitmap_set_range(B[0], b, e) : hwloc_bitmap_clr_range(B[0], b, e);
    if (rc != 0) FAIL("%s returned %d", fn, rc);
    chk_eq("result", B[0], &E);
  } else if (IS("from_ulong") || IS("from_ith_ulong") || IS("set_ith_ulong")) {
    unsigned idx = IS("from_ulong") ? 0 : (unsigned)S[0]; unsigned long mask = IS("from_ulong") ? S[0] : S[1]; int rc;
    if (idx > NBW - 3) { if (!quiet) printf("NOT-REPRODUCED (out of native window)\n"); return 0; }
    rd(B[0], &A); E = A;
    if (!IS("set_ith_ulong")) { memset(E.b, 0, NB); E.tail = 0; }
    for (x = 0; x < 64; x++) E.b[64 * idx + x] = (mask >> x) & 1;
    rc = IS("from_ulong") ? hwloc_bitmap_from_ulong(B[0], mask) : IS("from_ith_ulong") ? hwloc_bitmap_from_ith_ulong(B[0], idx, mask) : hwloc_bitmap_set_ith_ulong(B[0], idx, mask);
    if (rc != 0) FAIL("%s returned %d", fn, rc);
    chk_eq("result", B[0], &E);
  } else if (IS("from_ulongs")) {
    unsigned nr = (unsigned)S[0]; int rc;
    if (nr > 4) return 3;
    memset(E.b, 0, NB); E.tail = 0;
    for (i = 0; i < (int)nr; i++) for (x = 0; x < 64; x++) E.b[64 * i + x] = (M[i] >> x) & 1;
    rc = hwloc_bitmap_from_ulongs(B[0], nr, M);
    if (rc != 0) FAIL("%s returned %d", fn, rc);
    chk_eq("result", B[0], &E);
    if (!fails) {
      /* representation independence of later queries: iszero vs to_ulong */
      if (hwloc_bitmap_iszero(B[0]) && hwloc_bitmap_to_ulong(B[0]) != 0) FAIL("iszero()==1 but to_ulong()!=0 after from_ulongs");
    }
  } else if (IS("to_ulong") || IS("to_ith_ulong")) {
    unsigned idx = IS("to_ulong") ? 0 : (unsigned)S[0]; unsigned long exp = 0, got;
    rd(B[0], &A);
    if (idx > NBW - 1) { exp = A.tail ? ~0UL : 0UL; } else for (x = 0; x < 64; x++) exp |= (unsigned long)A.b[64 * idx + x] << x;
    got = IS("to_ulong") ? hwloc_bitmap_to_ulong(B[0]) : hwloc_bitmap_to_ith_ulong(B[0], idx);
    if (got != exp) FAIL("%s returned %#lx, set semantics say %#lx", fn, got, exp);
  } else if (IS("to_ulongs")) {
    unsigned nr = (unsigned)S[0]; unsigned long *m; unsigned k;
    if (nr > NBW) { if (!quiet) printf("NOT-REPRODUCED (out of native window)\n"); return 0; }
    rd(B[0], &A); m = malloc((nr ? nr : 1) * sizeof(*m));
    if (hwloc_bitmap_to_ulongs(B[0], nr, m) != 0) FAIL("to_ulongs returned non-zero");
    for (k = 0; k < nr; k++) { unsigned long exp = 0; for (x = 0; x < 64; x++) exp |= (unsigned long)A.b[64 * k + x] << x;
      if (m[k] != exp) { FAIL("masks[%u]=%#lx, set semantics say %#lx", k, m[k], exp); break; } }
  } else if (IS("nr_ulongs")) {
    long l; int got, exp; rd(B[0], &A); l = m_last(&A, 1);
    exp = A.tail ? -1 : (int)((l + 64) / 64); got = hwloc_bitmap_nr_ulongs(B[0]);
    if (got != exp) FAIL("nr_ulongs returned %d, set semantics say %d", got, exp);
  } else if (IS("isset")) {
    unsigned cpu = (unsigned)S[0]; int got, exp; rd(B[0], &A);
    exp = cpu < NB ? A.b[cpu] : A.tail; got = hwloc_bitmap_isset(B[0], cpu);
    if (got != exp) FAIL("isset(%u) returned %d, set semantics say %d", cpu, got, exp);
  } else if (IS("iszero") || IS("isfull")) {
    int got, exp; rd(B[0], &A);
    exp = IS("iszero") ? m_empty(&A) : (A.tail && m_first(&A, 0) < 0);
    got = IS("iszero") ? hwloc_bitmap_iszero(B[0]) : hwloc_bitmap_isfull(B[0]);
    if (got != exp) FAIL("%s returned %d, set semantics say %d", fn, got, exp);
  } else if (IS("isequal") || IS("intersects") || IS("isincluded") || IS("compare") || IS("compare_first") || IS("compare_inclusion")) {
    struct hwloc_bitmap_s *a = B[0], *b = alias == 1 ? a : B[1];
    int got, exp = 0, eq = 1, inter = 0, sub = 1, sup = 1;
    rd(a, &A); rd(b, &Bm);
    for (x = 0; x < NB; x++) { if (A.b[x] != Bm.b[x]) eq = 0; if (A.b[x] && Bm.b[x]) inter = 1; if (A.b[x] && !Bm.b[x]) sub = 0; if (Bm.b[x] && !A.b[x]) sup = 0; }
    if (IS("isequal")) { exp = eq; got = hwloc_bitmap_isequal(a, b); }
    else if (IS("intersects")) { exp = inter; got = hwloc_bitmap_intersects(a, b); }
    else if (IS("isincluded")) { exp = sub; got = hwloc_bitmap_isincluded(a, b); }
    else if (IS("compare")) {
      long k; exp = 0;
      if (A.tail != Bm.tail) exp = A.tail - Bm.tail;
      else for (k = NB - 1; k >= 0; k--) if (A.b[k] != Bm.b[k]) { exp = A.b[k] ? 1 : -1; break; }
      got = hwloc_bitmap_compare(a, b);
    } else if (IS("compare_first")) {
      long fa = m_first(&A, 1), fb = m_first(&Bm, 1);
      exp = (fa < 0 && fb < 0) ? 0 : fa < 0 ? 1 : fb < 0 ? -1 : sgn(fa - fb);
      got = sgn(hwloc_bitmap_compare_first(a, b));
    } else {
      exp = eq ? HWLOC_BITMAP_EQUAL : sub ? HWLOC_BITMAP_INCLUDED : sup ? HWLOC_BITMAP_CONTAINS : inter ? HWLOC_BITMAP_INTERSECTS : HWLOC_BITMAP_DIFFERENT;
      got = hwloc_bitmap_compare_inclusion(a, b);
    }
    if (got != exp) FAIL("%s returned %d, set semantics say %d", fn, got, exp);
  } else if (IS("first") || IS("first_unset") || IS("last") || IS("last_unset") || IS("weight")) {
    long exp; int got; rd(B[0], &A);
    if (IS("first")) { exp = m_first(&A, 1); got = hwloc_bitmap_first(B[0]); }
    else if (IS("first_unset")) { exp = m_first(&A, 0); got = hwloc_bitmap_first_unset(B[0]); }
    else if (IS("last")) { exp = m_last(&A, 1); got = hwloc_bitmap_last(B[0]); }
    else if (IS("last_unset")) { exp = m_last(&A, 0); got = hwloc_bitmap_last_unset(B[0]); }
    else { exp = 0; if (A.tail) exp = -1; else for (x = 0; x < NB; x++) exp += A.b[x]; got = hwloc_bitmap_weight(B[0]); }
    if (got != exp) FAIL("%s returned %d, set semantics say %ld", fn, got, exp);
  } else if (IS("next") || IS("next_unset")) {
    long prev = (long)S[0], exp; int got;
    if (prev < -1 || !INWIN((unsigned long)(prev + 1))) { if (!quiet) printf("NOT-REPRODUCED (out of native window)\n"); return 0; }
    rd(B[0], &A);
    exp = m_next(&A, prev, IS("next") ? 1 : 0);
    got = IS("next") ? hwloc_bitmap_next(B[0], (int)prev) : hwloc_bitmap_next_unset(B[0], (int)prev);
    if (got != exp) FAIL("%s(prev=%ld) returned %d, set semantics say %ld", fn, prev, got, exp);
  } else if (IS("singlify")) {
    long f; int rc; rd(B[0], &A); f = m_first(&A, 1);
    memset(E.b, 0, NB); E.tail = 0; if (f >= 0) E.b[f] = 1;
    rc = hwloc_bitmap_singlify(B[0]);
    if (rc != 0) FAIL("singlify returned %d", rc);
    chk_eq("result", B[0], &E);
  } else if (IS("alloc") || IS("alloc_full")) {
    struct hwloc_bitmap_s *r = IS("alloc") ? hwloc_bitmap_alloc() : hwloc_bitmap_alloc_full();
    int full = IS("alloc_full");
    for (x = 0; x < NB; x++) E.b[x] = full; E.tail = full;
    if (!r) FAIL("returned NULL"); else chk_eq("result", r, &E);
  } else if (IS("free")) {
    hwloc_bitmap_free(B[0]);
  } else {
    if (!quiet) printf("NOT-REPRODUCED (no native oracle for %s)\n", fn);
    return 0;
  }
  return fails;
}

/* usage: bitmap_replay FN ALIAS NB {count alloc inf w0 w1 w2 w3}*NB NS s0.. NM m0.. [vary GK GK2]
 * With "vary": the verifier's counterexample only determines the ghost words GK/GK2, the word counts, the tails
 * and the scalars; all other stored words are don't-cares of the refuted obligation.  They are completed by
 * enumeration over {as given, 0, ~0, same word of the other bitmap} until the real code disagrees with the oracle. */
int main(int argc, char **argv)
{
  int ai = 1, alias, nb, ns, nm, i, k;
  const char *fn;
  struct bspec BS[3];
  unsigned long S[4] = { 0, 0, 0, 0 }, M[4] = { 0, 0, 0, 0 };
  if (argc < 4) return 3;
  fn = argv[ai++]; alias = atoi(argv[ai++]); nb = atoi(argv[ai++]);
  if (nb > 3) nb = 3;
  memset(BS, 0, sizeof(BS));
  for (i = 0; i < nb; i++) {
    if (ai + 7 > argc) return 3;
    BS[i].c = strtoul(argv[ai++], 0, 0); BS[i].al = strtoul(argv[ai++], 0, 0); BS[i].inf = atoi(argv[ai++]);
    for (k = 0; k < 4; k++) BS[i].w[k] = strtoul(argv[ai++], 0, 0);
    if (BS[i].c < 1 || BS[i].c > 4 || BS[i].al > 64) return 3;
  }
  ns = ai < argc ? atoi(argv[ai++]) : 0;
  for (i = 0; i < ns && i < 4 && ai < argc; i++) S[i] = strtoul(argv[ai++], 0, 0);
  nm = ai < argc ? atoi(argv[ai++]) : 0;
  for (i = 0; i < nm && i < 4 && ai < argc; i++) M[i] = strtoul(argv[ai++], 0, 0);
  if (run_case(fn, alias, nb, BS, S, M)) return 1;
  if (ai < argc && !strcmp(argv[ai], "vary") && ai + 2 < argc) {
    unsigned gk = strtoul(argv[ai + 1], 0, 0), gk2 = strtoul(argv[ai + 2], 0, 0);
    int slots[12][2], nslots = 0, total = 1, v;
    for (i = 0; i < nb && i < 2; i++)
      for (k = 0; k < (int)BS[i].c; k++)
        if ((unsigned)k != gk && (unsigned)k != gk2 && nslots < 8) { slots[nslots][0] = i; slots[nslots][1] = k; nslots++; }
    for (i = 0; i < nslots; i++) total *= 4;
    quiet = 1;
    for (v = 1; v < total; v++) {
      struct bspec V[3]; int t = v, silent_fails;
      memcpy(V, BS, sizeof(V));
      for (i = 0; i < nslots; i++, t /= 4) {
        int b = slots[i][0], j = slots[i][1], o = 1 - b;
        switch (t % 4) {
        case 1: V[b].w[j] = 0UL; break;
        case 2: V[b].w[j] = ~0UL; break;
        case 3: V[b].w[j] = (nb >= 2 && (unsigned)j < BS[o].c) ? BS[o].w[j] : (BS[o].inf ? ~0UL : 0UL); break;
        default: break;
        }
      }
      /* dry run without printing, then a verbose one for the first hit */
      { FILE *old = stdout; (void)old; }
      fflush(stdout);
      { int saved = dup(1); int nul = open("/dev/null", 1); dup2(nul, 1); silent_fails = run_case(fn, alias, nb, V, S, M); fflush(stdout); dup2(saved, 1); close(nul); close(saved); }
      if (silent_fails) {
        printf("don't-care words completed (variant %d):", v);
        for (i = 0; i < nb && i < 2; i++) { printf(" bitmap%d={count=%u inf=%d", i, V[i].c, V[i].inf); for (k = 0; k < (int)V[i].c; k++) printf(" %#lx", V[i].w[k]); printf("}"); }
        printf("\n");
        run_case(fn, alias, nb, V, S, M);
        return 1;
      }
    }
  }
  printf("NOT-REPRODUCED\n");
  return 0;
}
