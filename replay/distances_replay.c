/* Native replay for the distances.c obligations (C13): the verifier's counterexample fixes the entry point and the
 * refuted clause; the remaining input space is small and is enumerated here against the REAL library
 * (libhwloc.so built from /repo's working tree).  usage: distances_replay <transform|add>   exit 1 = reproduced. */
#include <stdio.h>
#include <stdlib.h>
#include <string.h>
#include <errno.h>
#include "hwloc.h"

#define MAXN 4
static struct hwloc_obj o[MAXN];
static const char *kinds[4] = { 0 /* NULL object */, 0 /* plain */, "NVSwitch", "NVSwitchX" };

static int check_transform(void)
{
  unsigned n, code, i, j, k; int bad = 0;
  for (n = 2; n <= MAXN && !bad; n++) {
    unsigned ncodes = 1; for (i = 0; i < n; i++) ncodes *= 4;
    for (code = 0; code < ncodes && !bad; code++) {
      int tr;
      for (tr = 0; tr <= 3 && !bad; tr++) {
        hwloc_obj_t objs[MAXN], oo[MAXN]; hwloc_uint64_t v[MAXN * MAXN], ov[MAXN * MAXN]; int sw[MAXN]; struct hwloc_distances_s d;
        unsigned c = code, first = MAXN, nk = 0, map[MAXN]; int r, e;
        for (i = 0; i < n; i++, c /= 4) {
          unsigned kd = c % 4;
          memset(&o[i], 0, sizeof(o[i])); o[i].type = (i & 1) ? HWLOC_OBJ_OS_DEVICE : HWLOC_OBJ_PCI_DEVICE; o[i].subtype = (char *)kinds[kd];
          objs[i] = oo[i] = kd ? &o[i] : NULL; sw[i] = (kd == 2);
        }
        for (i = 0; i < n * n; i++) v[i] = ov[i] = 6 * (7 + i * i);
        d.nbobjs = n; d.objs = objs; d.values = v; d.kind = HWLOC_DISTANCES_KIND_FROM_USER | HWLOC_DISTANCES_KIND_VALUE_BANDWIDTH;
        errno = 0;
        r = hwloc_distances_transform(NULL, &d, (enum hwloc_distances_transform_e)tr, NULL, 0); e = errno;
        if (tr == HWLOC_DISTANCES_TRANSFORM_MERGE_SWITCH_PORTS || tr == HWLOC_DISTANCES_TRANSFORM_REMOVE_NULL) {
          int merge = tr == HWLOC_DISTANCES_TRANSFORM_MERGE_SWITCH_PORTS;
          for (i = 0; i < n; i++) if (merge && sw[i] && first == MAXN) first = i;
          for (i = 0; i < n; i++) { int kept = oo[i] && (!merge || !sw[i] || i == first); map[i] = kept ? nk++ : MAXN; }
          if (merge && first == MAXN) { if (!(r == -1 && e == ENOENT)) bad = 1; }
          else if (nk < 2) { if (!(r == -1 && e == EINVAL)) bad = 2; }
          else {
            if (r != 0 || d.nbobjs != nk) bad = 3;
            for (i = 0; i < n && !bad; i++) if (map[i] != MAXN && objs[map[i]] != oo[i]) bad = 4;
            for (i = 0; i < n && !bad; i++) for (j = 0; j < n && !bad; j++)
              if (map[i] != MAXN && map[j] != MAXN && !(merge && (sw[i] || sw[j])) && v[map[i] * nk + map[j]] != ov[i * n + j]) bad = 5;
            if (merge) for (i = 0; i < n && !bad; i++) if (map[i] != MAXN && !sw[i]) {
              hwloc_uint64_t row = 0, col = 0;
              for (k = 0; k < n; k++) if (sw[k]) { row += ov[i * n + k]; col += ov[k * n + i]; }
              if (v[map[i] * nk + map[first]] != row || v[map[first] * nk + map[i]] != col) bad = 6;
            }
          }
        } else if (tr == HWLOC_DISTANCES_TRANSFORM_TRANSITIVE_CLOSURE) {
          if (r != 0 || d.nbobjs != n) bad = 7;
          for (i = 0; i < n && !bad; i++) if (objs[i] != oo[i]) bad = 8;
          for (i = 0; i < n && !bad; i++) for (j = 0; j < n && !bad; j++) {
            hwloc_uint64_t a = 0, b = 0, exp = ov[i * n + j];
            for (k = 0; k < n; k++) if (sw[k]) { a += ov[i * n + k]; b += ov[k * n + j]; }
            if (i != j && !sw[i] && !sw[j]) exp += a < b ? a : b;
            if (v[i * n + j] != exp) bad = 9;
          }
        } else { /* LINKS */
          hwloc_uint64_t div = 0; int indiv = 0;
          for (i = 0; i < n; i++) for (j = 0; j < n; j++) if (i != j && ov[i * n + j] && (!div || ov[i * n + j] < div)) div = ov[i * n + j];
          for (i = 0; i < n; i++) for (j = 0; j < n; j++) if (i != j && div && ov[i * n + j] % div) indiv = 1;
          if (indiv) { if (!(r == -1 && e == ENOENT)) bad = 10; }
          else { if (r != 0) bad = 11; for (i = 0; i < n && !bad; i++) for (j = 0; j < n && !bad; j++) if (v[i * n + j] != (i == j ? 0 : div ? ov[i * n + j] / div : 0)) bad = 12; }
        }
        if (bad) {
          printf("REPRODUCED: hwloc_distances_transform(transform=%d) on %u objects [", tr, n);
          for (i = 0, c = code; i < n; i++, c /= 4) printf("%s%s", i ? "," : "", (c % 4) == 0 ? "NULL" : (c % 4) == 1 ? "gpu" : (c % 4) == 2 ? "NVSwitch" : "\"NVSwitchX\"");
          printf("]: clause %d of the native oracle fails (ret=%d errno=%d nbobjs=%u, %u expected)\n", bad, r, e, d.nbobjs, nk);
        }
      }
    }
  }
  if (!bad) printf("not reproduced: all transformations agree with the oracle on every matrix of 2..%d objects over {NULL, plain, NVSwitch, \"NVSwitchX\"}\n", MAXN);
  return bad ? 1 : 0;
}


/* hwloc_distances_add_*: every pattern of NULL entries in a 2..3 object array must be refused with EINVAL and leave
 * the list unchanged (property: "fewer than 2 objects ... are rejected"; a NULL entry is not an object) */
static int check_add(void)
{
  hwloc_topology_t t; unsigned n, mask, i; int bad = 0;
  hwloc_topology_init(&t); hwloc_topology_set_synthetic(t, "pack:2 core:2 pu:2"); hwloc_topology_load(t);
  for (n = 2; n <= 3 && !bad; n++) for (mask = 0; mask < (1u << n) && !bad; mask++) {
    hwloc_obj_t objs[3]; hwloc_uint64_t v[9]; void *h; int r, e; unsigned nr = 0, before = 0;
    for (i = 0; i < n; i++) objs[i] = (mask >> i) & 1 ? NULL : hwloc_get_obj_by_type(t, HWLOC_OBJ_PU, i);
    for (i = 0; i < n * n; i++) v[i] = 10 + i;
    hwloc_distances_get(t, &before, NULL, 0, 0);
    h = hwloc_distances_add_create(t, "verif", HWLOC_DISTANCES_KIND_FROM_USER | HWLOC_DISTANCES_KIND_VALUE_LATENCY, 0);
    errno = 0; r = hwloc_distances_add_values(t, h, n, objs, v, 0); e = errno;
    if (!r) r = hwloc_distances_add_commit(t, h, 0);
    hwloc_distances_get(t, &nr, NULL, 0, 0);
    if (mask && (r == 0 || nr != before)) {
      struct hwloc_distances_s *d[8]; unsigned m = 8; hwloc_distances_get(t, &m, d, 0, 0);
      printf("REPRODUCED: hwloc_distances_add_values(nbobjs=%u, NULL mask %#x) accepted (ret=%d errno=%d): %u structures (were %u), the new one has %u object(s)\n", n, mask, r, e, nr, before, m ? d[m - 1]->nbobjs : 0);
      bad = 1;
    }
    if (!mask && r != 0) { printf("REPRODUCED: valid add refused\n"); bad = 1; }
    if (r == 0) hwloc_distances_remove(t);
  }
  if (!bad) printf("not reproduced: every array with a NULL entry is refused, valid arrays are accepted\n");
  hwloc_topology_destroy(t);
  return bad;
}

int main(int argc, char **argv)
{
  if (argc < 2) return 2;
  if (!strcmp(argv[1], "transform")) return check_transform();
  if (!strcmp(argv[1], "add")) return check_add();
  return 2;
}
