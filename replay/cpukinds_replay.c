/* Native replay for the cpukinds.c representation-invariant obligation (C15): after hwloc_internal_cpukinds_restrict()
 * removed a kind, the slot it vacated at the end of the kinds array must not keep stale infos, because the next
 * hwloc_cpukinds_register() appends to whatever is in the first unused slot.  Scenario in a child process:
 * register {0-3} a=1, {4-7} b=2; restrict to 4-7; register {4-5} c=3; inspect; destroy.   exit 1 = reproduced. */
#include <hwloc.h>
#include <stdio.h>
#include <stdlib.h>
#include <string.h>
#include <unistd.h>
#include <sys/wait.h>
static int reg(hwloc_topology_t t, int a, int b, const char *n, const char *v)
{
  hwloc_bitmap_t s = hwloc_bitmap_alloc(); struct hwloc_info_s info; struct hwloc_infos_s infos; int r;
  hwloc_bitmap_set_range(s, a, b);
  info.name = (char *)n; info.value = (char *)v; infos.array = &info; infos.count = 1; infos.allocated = 0;
  r = hwloc_cpukinds_register(t, s, -1, &infos, 0);
  hwloc_bitmap_free(s);
  return r;
}
static int child(void)
{
  hwloc_topology_t t; hwloc_bitmap_t s; int n, i, bad = 0; unsigned j;
  hwloc_topology_init(&t); hwloc_topology_set_synthetic(t, "pu:8"); hwloc_topology_load(t);
  if (reg(t, 0, 3, "a", "1") || reg(t, 4, 7, "b", "2")) return 3;
  s = hwloc_bitmap_alloc(); hwloc_bitmap_set_range(s, 4, 7); if (hwloc_topology_restrict(t, s, 0)) return 3; hwloc_bitmap_free(s);
  if (reg(t, 4, 5, "c", "3")) return 3;
  n = hwloc_cpukinds_get_nr(t, 0);
  for (i = 0; i < n; i++) {
    struct hwloc_infos_s *ip; int e; s = hwloc_bitmap_alloc();
    hwloc_cpukinds_get_info(t, i, s, &e, &ip, 0);
    /* kind {6-7} must carry exactly b=2, kind {4-5} exactly b=2 and c=3 */
    for (j = 0; j < ip->count; j++) if (!strcmp(ip->array[j].name, "a")) { printf("kind %d carries the info a=1 of a kind that was removed by the restrict\n", i); bad = 1; }
    if (ip->count != (hwloc_bitmap_isset(s, 4) ? 2u : 1u)) { printf("kind %d carries %u info pairs\n", i, ip->count); bad = 1; }
    hwloc_bitmap_free(s);
  }
  hwloc_topology_destroy(t);
  return bad;
}
int main(void)
{
  pid_t p = fork(); int st = 0;
  if (p == 0) _exit(child());
  waitpid(p, &st, 0);
  if (WIFSIGNALED(st)) { printf("REPRODUCED: register {0-3},{4-7}; restrict to 4-7; register {4-5}; destroy: crashes with signal %d (stale infos in the slot vacated by the restrict are reused and freed twice)\n", WTERMSIG(st)); return 1; }
  if (WEXITSTATUS(st) == 1) { printf("REPRODUCED: a kind registered after a restrict inherits stale infos\n"); return 1; }
  if (WEXITSTATUS(st) == 3) { printf("NOT-REPRODUCED (scenario could not be set up)\n"); return 0; }
  printf("NOT-REPRODUCED: register / restrict / register keeps the infos of every kind exact\n");
  return 0;
}
