/* Native replay for the shmem.c obligation "write() leaves the shared copy self-sufficient: its distances and memory
 * attribute caches are refreshed before the mapping is released, so that consulting calls on the adopted (read-only)
 * topology never have to write" (C19).  A child process writes + adopts a topology that carries a user distances matrix
 * and a user memory attribute, then runs consulting calls on the adopted copy.  exit 1 = reproduced (child crashed or a
 * query failed / disagrees with the original). */
#define _GNU_SOURCE
#include <hwloc.h>
#include <hwloc/shmem.h>
#include <stdio.h>
#include <stdlib.h>
#include <string.h>
#include <errno.h>
#include <unistd.h>
#include <sys/wait.h>

static int child(void)
{
  hwloc_topology_t orig, t = NULL; size_t len = 0; char path[] = "/tmp/verif_shmem_XXXXXX"; int fd = mkstemp(path);
  void *addr = (void *)0x7f3000000000UL; hwloc_memattr_id_t id; hwloc_obj_t n0, n0a; struct hwloc_location loc; hwloc_uint64_t v = 0, vo = 0;
  hwloc_obj_t objs[2]; hwloc_uint64_t vals[4] = { 1, 2, 3, 4 }; void *h; unsigned nr = 1; struct hwloc_distances_s *d;
  unlink(path);
  hwloc_topology_init(&orig); hwloc_topology_set_synthetic(orig, "node:2 core:2 pu:2"); hwloc_topology_load(orig);
  n0 = hwloc_get_obj_by_type(orig, HWLOC_OBJ_NUMANODE, 0);
  if (hwloc_memattr_register(orig, "verif", HWLOC_MEMATTR_FLAG_HIGHER_FIRST | HWLOC_MEMATTR_FLAG_NEED_INITIATOR, &id) < 0) return 3;
  loc.type = HWLOC_LOCATION_TYPE_CPUSET; loc.location.cpuset = n0->cpuset;
  if (hwloc_memattr_set_value(orig, id, n0, &loc, 0, 42) < 0) return 3;
  objs[0] = n0; objs[1] = hwloc_get_obj_by_type(orig, HWLOC_OBJ_NUMANODE, 1);
  h = hwloc_distances_add_create(orig, "verif", HWLOC_DISTANCES_KIND_FROM_USER | HWLOC_DISTANCES_KIND_VALUE_LATENCY, 0);
  if (!h || hwloc_distances_add_values(orig, h, 2, objs, vals, 0) < 0 || hwloc_distances_add_commit(orig, h, 0) < 0) return 3;
  if (fd < 0 || hwloc_shmem_topology_get_length(orig, &len, 0) < 0 || hwloc_shmem_topology_write(orig, fd, 0, addr, len, 0) < 0
      || hwloc_shmem_topology_adopt(&t, fd, 0, addr, len, 0) < 0) return 3;
  n0a = hwloc_get_obj_by_type(t, HWLOC_OBJ_NUMANODE, 0);
  loc.location.cpuset = n0a->cpuset;
  if (hwloc_memattr_get_value(orig, id, n0, &loc, 0, &vo) < 0) return 3;
  if (hwloc_memattr_get_value(t, id, n0a, &loc, 0, &v) < 0 || v != vo) { printf("memattr value on the adopted copy: %llu, original %llu\n", (unsigned long long)v, (unsigned long long)vo); return 1; }
  if (hwloc_distances_get_by_name(t, "verif", &nr, &d, 0) < 0 || nr != 1 || d->values[1] != 2) { printf("distances on the adopted copy differ\n"); return 1; }
  hwloc_distances_release(t, d);
  return 0;
}

int main(void)
{
  pid_t p = fork(); int st = 0;
  if (p == 0) _exit(child());
  waitpid(p, &st, 0);
  if (WIFSIGNALED(st)) { printf("REPRODUCED: consulting calls (hwloc_memattr_get_value / hwloc_distances_get_by_name) on an adopted topology crash with signal %d: the shared copy was not refreshed by hwloc_shmem_topology_write() and the reader writes into the read-only mapping\n", WTERMSIG(st)); return 1; }
  if (WEXITSTATUS(st) == 1) { printf("REPRODUCED: the adopted copy answers differently from the original\n"); return 1; }
  if (WEXITSTATUS(st) == 3) { printf("NOT-REPRODUCED (cannot set up the scenario here: %s)\n", strerror(errno)); return 0; }
  printf("NOT-REPRODUCED: memory-attribute and distances queries on the adopted copy work and agree with the original\n");
  return 0;
}
