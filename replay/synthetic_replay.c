/* Native replay for the C07 obligations (topology-synthetic.c), linked against /repo's libhwloc.so.
 *   synthetic_replay levels   every description "group:1 ... group:1 pu:1" with 1..127 levels (and the untyped "1 1 ... 1",
 *                             with and without an attached "[numa]"): set_synthetic + load + destroy.  Run under valgrind
 *                             (--error-exitcode=1): an out-of-bounds access of the level table is a memory error.
 *   synthetic_replay export   a few synthetic topologies exported with every buffer size 0..length+2 between guard bytes:
 *                             nothing outside [buf,buf+size), NUL-terminated, same return value for every size.
 *   synthetic_replay interleave  descriptions with hostile "indexes=x*y:..." interleavings, each in a child process.
 * Exit 1 = the obligation's violation is reproduced on the real code, 0 = not reproduced. */
#include <hwloc.h>
#include <stdio.h>
#include <stdlib.h>
#include <string.h>
#include <unistd.h>
#include <sys/wait.h>

static int try_desc(const char *s, int load)
{
  hwloc_topology_t t; int r;
  hwloc_topology_init(&t);
  r = hwloc_topology_set_synthetic(t, s);
  if (!r && load) r = hwloc_topology_load(t);
  hwloc_topology_destroy(t);
  return r;
}

static int levels(void)
{
  static char s[4096]; int n, k, acc = 0;
  for (n = 1; n <= 127; n++) {
    s[0] = 0; for (k = 0; k < n - 1; k++) strcat(s, "group:1 "); strcat(s, "pu:1");
    if (!try_desc(s, n < 40)) acc++;
    s[0] = 0; for (k = 0; k < n; k++) strcat(s, "1 ");
    if (!try_desc(s, n < 40)) acc++;
    s[0] = 0; strcat(s, "[numa] "); for (k = 0; k < n; k++) strcat(s, "1 ");
    if (!try_desc(s, n < 40)) acc++;
  }
  printf("levels: %d descriptions accepted (memory errors are reported by valgrind)\n", acc);
  return 0;
}

static int export_one(const char *desc, unsigned long flags)
{
  hwloc_topology_t t; static char big[4096]; int full, size, bad = 0;
  hwloc_topology_init(&t);
  if (hwloc_topology_set_synthetic(t, desc) || hwloc_topology_load(t)) { hwloc_topology_destroy(t); return 0; }
  full = hwloc_topology_export_synthetic(t, big, sizeof(big), flags);
  if (full < 0) { hwloc_topology_destroy(t); return 0; }
  for (size = 0; size <= full + 2; size++) {
    unsigned char *a = malloc(size + 32); int r, i;
    memset(a, 0xA5, size + 32);
    r = hwloc_topology_export_synthetic(t, size ? (char *)a + 16 : NULL, size, flags);
    if (size == 0) r = hwloc_topology_export_synthetic(t, (char *)a + 16, 0, flags);
    for (i = 0; i < 16; i++) if (a[i] != 0xA5 || a[16 + size + i] != 0xA5) { printf("REPRODUCED: \"%s\" flags %lu size %d: byte outside [buf,buf+size) overwritten (offset %d)\n", desc, flags, size, a[i] != 0xA5 ? i - 16 : size + i); bad = 1; break; }
    if (r != full) { printf("REPRODUCED: \"%s\" flags %lu size %d: returns %d, the untruncated length is %d\n", desc, flags, size, r, full); bad = 1; }
    if (size > 0 && !memchr(a + 16, 0, size)) { printf("REPRODUCED: \"%s\" flags %lu size %d: not NUL-terminated\n", desc, flags, size); bad = 1; }
    if (size > 0 && !bad && strncmp((char *)a + 16, big, strlen((char *)a + 16))) { printf("REPRODUCED: \"%s\" size %d: truncated text is not a prefix\n", desc, size); bad = 1; }
    free(a);
    if (bad) break;
  }
  hwloc_topology_destroy(t);
  return bad;
}

/* hostile interleaving attributes: numbers whose product wraps around, zero, huge steps ...; each description is loaded in
 * a child process, an abort / crash of the child reproduces the violation */
static int interleave(void)
{
  static const char *nums[] = { "0", "1", "2", "3", "4", "2147483648", "4294967295", "4294967296", "65536", "18446744073709551615" };
  enum { NN = sizeof(nums) / sizeof(*nums) };
  unsigned a, b, c, d; int bad = 0; char s[256];
  for (a = 0; a < NN && !bad; a++) for (b = 0; b < NN && !bad; b++) for (c = 0; c < NN && !bad; c++) for (d = 0; d < 3 && !bad; d++) {
    pid_t pid; int st;
    if (d == 0) snprintf(s, sizeof(s), "pu:4(indexes=%s*%s)", nums[a], nums[b]);
    else if (d == 1) snprintf(s, sizeof(s), "core:2 pu:2(indexes=%s*%s:%s*%s)", nums[a], nums[b], nums[c], nums[a]);
    else snprintf(s, sizeof(s), "pu:4(indexes=%s*%s:%s*%s:%s*%s)", nums[a], nums[b], nums[c], nums[b], nums[a], nums[b]);
    pid = fork();
    if (!pid) { fclose(stderr); try_desc(s, 1); _exit(0); }
    waitpid(pid, &st, 0);
    if (!WIFEXITED(st) || WEXITSTATUS(st)) { printf("REPRODUCED: hwloc_topology_set_synthetic(\"%s\") + load: child %s %d\n", s, WIFSIGNALED(st) ? "killed by signal" : "exit status", WIFSIGNALED(st) ? WTERMSIG(st) : WEXITSTATUS(st)); bad = 1; }
  }
  if (!bad) printf("interleave: no description crashed\n");
  return bad;
}

int main(int argc, char **argv)
{
  static const char *descs[] = { "pu:2", "pack:2 core:2 pu:2", "pack:2 [numa(memory=1024)] l2:2 pu:2(indexes=2*2:1*2)", "node:2(memory=4096 indexes=1,0) pu:3", "[numa] [numa(memorysidecachesize=64)] pack:2 pu:2(indexes=3,2,1,0)", "group:2 [numa] die:2 l1i:1 pu:1" };
  unsigned i; unsigned long f; int bad = 0;
  if (argc > 1 && !strcmp(argv[1], "levels")) return levels();
  if (argc > 1 && !strcmp(argv[1], "interleave")) return interleave();
  for (i = 0; i < sizeof(descs) / sizeof(*descs); i++)
    for (f = 0; f < 16 && !bad; f++) bad |= export_one(descs[i], f);
  if (!bad) printf("export: contract held on the enumerated topologies\n");
  return bad;
}
