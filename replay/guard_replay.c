/* Native replay for the guard / error-path clauses (C19 EPERM guards, C08 restrict EINVAL clause) on the real library.
 * The verifier's counterexample for these contracts fixes the entry point and the clause (q_case); the remaining
 * inputs form a small finite space (flag words, intersecting or not), which is enumerated here.
 *
 * usage: guard_replay eperm <function>      adopted (shared-memory) topology: the call must fail with EPERM (or be refused)
 *                                           and the adopted topology must export the same XML afterwards
 *        guard_replay restrict              loaded topology: every invalid flag word / non-intersecting set must give
 *                                           -1/EINVAL and leave the XML export unchanged
 * exit 1 + "REPRODUCED: ..." when the real code violates the clause, 0 otherwise (a crash of the child counts as violation). */
#define _GNU_SOURCE
#include <hwloc.h>
#include <hwloc/shmem.h>
#include <stdio.h>
#include <stdlib.h>
#include <string.h>
#include <errno.h>
#include <unistd.h>
#include <fcntl.h>
#include <sys/wait.h>

static char *xml_of(hwloc_topology_t t) { char *b = NULL; int l = 0; if (hwloc_topology_export_xmlbuffer(t, &b, &l, 0) < 0) return NULL; return b; }
static hwloc_topology_t load_synth(void)
{
  hwloc_topology_t t; hwloc_topology_init(&t);
  hwloc_topology_set_synthetic(t, "node:2 core:2 pu:2");
  hwloc_topology_set_type_filter(t, HWLOC_OBJ_MISC, HWLOC_TYPE_FILTER_KEEP_ALL);
  hwloc_topology_load(t);
  return t;
}

static int do_eperm(const char *fn)
{
  hwloc_topology_t orig = load_synth(), t = NULL; size_t len = 0; char path[] = "/tmp/verif_guard_XXXXXX"; int fd = mkstemp(path);
  void *addr = (void *)0x7f2000000000UL; char *before, *after; int bad = 0, flagsweep, nflags = 1;
  unlink(path);
  if (fd < 0 || hwloc_shmem_topology_get_length(orig, &len, 0) < 0 || hwloc_shmem_topology_write(orig, fd, 0, addr, len, 0) < 0
      || hwloc_shmem_topology_adopt(&t, fd, 0, addr, len, 0) < 0) { printf("NOT-REPRODUCED (cannot set up an adopted topology here: %s)\n", strerror(errno)); return 0; }
  before = xml_of(t);
  if (!strcmp(fn, "hwloc_topology_restrict")) nflags = 32;
  for (flagsweep = 0; flagsweep < nflags && !bad; flagsweep++) {
    long r = 0; int isptr = 0; hwloc_bitmap_t set = hwloc_bitmap_alloc(); hwloc_bitmap_only(set, 0);
    errno = 0;
    if (!strcmp(fn, "hwloc_topology_restrict")) r = hwloc_topology_restrict(t, set, (unsigned long)flagsweep);
    else if (!strcmp(fn, "hwloc_topology_alloc_group_object")) { r = (long)hwloc_topology_alloc_group_object(t); isptr = 1; }
    else if (!strcmp(fn, "hwloc_topology_free_group_object")) r = hwloc_topology_free_group_object(t, NULL);
    else if (!strcmp(fn, "hwloc_topology_insert_misc_object")) { r = (long)hwloc_topology_insert_misc_object(t, hwloc_get_root_obj(t), "x"); isptr = 1; }
    else if (!strcmp(fn, "hwloc_distances_remove")) r = hwloc_distances_remove(t);
    else if (!strcmp(fn, "hwloc_distances_remove_by_depth")) r = hwloc_distances_remove_by_depth(t, flagsweep ? 0 : hwloc_get_type_depth(t, HWLOC_OBJ_NUMANODE));
    else if (!strcmp(fn, "hwloc_distances_add_create")) { r = (long)hwloc_distances_add_create(t, "x", HWLOC_DISTANCES_KIND_FROM_USER | HWLOC_DISTANCES_KIND_MEANS_LATENCY, 0); isptr = 1; }
    else if (!strcmp(fn, "hwloc_topology_diff_apply")) r = hwloc_topology_diff_apply(t, NULL, 0);
    else { printf("NOT-REPRODUCED (no native call for %s)\n", fn); return 0; }
    if ((isptr ? r != 0 : r != -1) || errno != EPERM) {
      printf("REPRODUCED: %s on an adopted topology (variant %d) returned %ld with errno %d (%s), expected failure with EPERM\n", fn, flagsweep, r, errno, strerror(errno));
      bad = 1;
    }
    hwloc_bitmap_free(set);
  }
  after = xml_of(t);
  if (!bad && before && after && strcmp(before, after)) { printf("REPRODUCED: %s changed the adopted topology\n", fn); bad = 1; }
  if (!bad) printf("NOT-REPRODUCED\n");
  return bad;
}

static int do_restrict(void)
{
  unsigned long flags; int inter, bad = 0;
  const unsigned long ALL = HWLOC_RESTRICT_FLAG_REMOVE_CPULESS | HWLOC_RESTRICT_FLAG_ADAPT_MISC | HWLOC_RESTRICT_FLAG_ADAPT_IO | HWLOC_RESTRICT_FLAG_BYNODESET | HWLOC_RESTRICT_FLAG_REMOVE_MEMLESS;
  for (flags = 0; flags < 128 && !bad; flags++) for (inter = 0; inter < 2 && !bad; inter++) {
    int invalid = (flags & ~ALL) || ((flags & HWLOC_RESTRICT_FLAG_BYNODESET) && (flags & HWLOC_RESTRICT_FLAG_REMOVE_CPULESS))
                  || (!(flags & HWLOC_RESTRICT_FLAG_BYNODESET) && (flags & HWLOC_RESTRICT_FLAG_REMOVE_MEMLESS));
    hwloc_topology_t t; hwloc_bitmap_t set; char *before, *after; int r;
    if (!invalid && inter) continue;                 /* a valid call: not part of this clause */
    t = load_synth(); set = hwloc_bitmap_alloc(); hwloc_bitmap_only(set, inter ? 0 : 1000);
    before = xml_of(t); errno = 0;
    r = hwloc_topology_restrict(t, set, flags);
    after = xml_of(t);
    if (r != -1 || errno != EINVAL) { printf("REPRODUCED: hwloc_topology_restrict(flags=%#lx, %s set) returned %d with errno %d, expected -1/EINVAL\n", flags, inter ? "intersecting" : "non-intersecting", r, errno); bad = 1; }
    else if (before && after && strcmp(before, after)) { printf("REPRODUCED: hwloc_topology_restrict(flags=%#lx) failed with EINVAL but changed the topology\n", flags); bad = 1; }
    hwloc_bitmap_free(set); hwloc_topology_destroy(t);
  }
  if (!bad) printf("NOT-REPRODUCED\n");
  return bad;
}

int main(int argc, char **argv)
{
  pid_t pid; int st;
  if (argc < 2) return 3;
  fflush(stdout);
  pid = fork();
  if (pid == 0) {
    int r = !strcmp(argv[1], "eperm") && argc > 2 ? do_eperm(argv[2]) : !strcmp(argv[1], "restrict") ? do_restrict() : 3;
    fflush(stdout);
    _exit(r);
  }
  waitpid(pid, &st, 0);
  if (WIFSIGNALED(st)) { printf("REPRODUCED: the call crashed with signal %d (%s) on the real library\n", WTERMSIG(st), strsignal(WTERMSIG(st))); return 1; }
  return WEXITSTATUS(st);
}
