/* Bounded harnesses for hwloc_bitmap_sscanf / list_sscanf / taskset_sscanf on an ARBITRARY NUL-terminated
 * string of at most SLEN characters (every byte value, allocated with its exact size): returns 0 or -1, no out-of-bounds access, no failed
 * assertion, and the destination still satisfies the representation invariant. */
#ifndef SLEN
#define SLEN 6
#endif
struct verif_str { char c[SLEN + 1]; };
struct verif_str nondet_str(void);
static struct hwloc_bitmap_s *verif_mkdst(void)
{
  struct hwloc_bitmap_s *s = malloc(sizeof(*s));
  __CPROVER_assume(s != 0);
  s->ulongs_allocated = nondet_unsigned();
  __CPROVER_assume(s->ulongs_allocated >= 1 && s->ulongs_allocated <= 4);
  s->ulongs = malloc(s->ulongs_allocated * sizeof(unsigned long));
  __CPROVER_assume(s->ulongs != 0);
  s->ulongs_count = nondet_unsigned();
  __CPROVER_assume(s->ulongs_count >= 1 && s->ulongs_count <= s->ulongs_allocated);
  s->infinite = nondet_bool();
  return s;
}
#define PARSER_HARNESS(fn) void hp_##fn(void) { char *str; struct hwloc_bitmap_s *set; int r; \
  VERIF_GHOSTS(); str = verif_exact_string(SLEN); set = verif_mkdst(); \
  r = fn(set, str); \
  __CPROVER_assert(r == 0 || r == -1, "returns 0 or -1"); \
  __CPROVER_assert(set->ulongs_count >= 1 && set->ulongs_count <= set->ulongs_allocated && (set->infinite == 0 || set->infinite == 1), "destination satisfies the representation invariant"); \
  VERIF_CANARY(); }
PARSER_HARNESS(hwloc_bitmap_sscanf)
PARSER_HARNESS(hwloc_bitmap_list_sscanf)
PARSER_HARNESS(hwloc_bitmap_taskset_sscanf)
