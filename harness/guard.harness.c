/* DFCC harnesses for the guard / error-path contracts: arguments are nondeterministic, the enforced
 * contract's requires clause shapes them. */
#ifdef GUARD_TOPOLOGY
void h_hwloc_topology_alloc_group_object(void) { VERIF_GHOSTS(); struct hwloc_topology *t; hwloc_topology_alloc_group_object(t); VERIF_CANARY(); }
void h_hwloc_topology_free_group_object(void) { VERIF_GHOSTS(); struct hwloc_topology *t; hwloc_obj_t o; hwloc_topology_free_group_object(t, o); VERIF_CANARY(); }
void h_hwloc_topology_insert_group_object(void) { VERIF_GHOSTS(); struct hwloc_topology *t; hwloc_obj_t o; hwloc_topology_insert_group_object(t, o); VERIF_CANARY(); }
void h_hwloc_topology_insert_misc_object(void) { VERIF_GHOSTS(); struct hwloc_topology *t; hwloc_obj_t o; const char *n; hwloc_topology_insert_misc_object(t, o, n); VERIF_CANARY(); }
void h_hwloc_topology_restrict(void) { VERIF_GHOSTS(); struct hwloc_topology *t; hwloc_const_bitmap_t s; unsigned long f; hwloc_topology_restrict(t, s, f); VERIF_CANARY(); }
void h_hwloc_topology_allow(void) { VERIF_GHOSTS(); struct hwloc_topology *t; hwloc_const_bitmap_t c, n; unsigned long f; hwloc_topology_allow(t, c, n, f); VERIF_CANARY(); }
#endif
#ifdef GUARD_DISTANCES
void h_hwloc_distances_remove(void) { VERIF_GHOSTS(); struct hwloc_topology *t; hwloc_distances_remove(t); VERIF_CANARY(); }
void h_hwloc_distances_remove_by_depth(void) { VERIF_GHOSTS(); struct hwloc_topology *t; int d; hwloc_distances_remove_by_depth(t, d); VERIF_CANARY(); }
void h_hwloc_distances_add_create(void) { VERIF_GHOSTS(); struct hwloc_topology *t; const char *n; unsigned long k, f; hwloc_distances_add_create(t, n, k, f); VERIF_CANARY(); }
#endif
#ifdef GUARD_DIFF
void h_hwloc_topology_diff_apply__rollback(void) { VERIF_GHOSTS(); struct hwloc_topology *t; hwloc_topology_diff_t d; unsigned long f; hwloc_topology_diff_apply(t, d, f); VERIF_CANARY(); }
void h_hwloc_topology_diff_apply(void) { VERIF_GHOSTS(); struct hwloc_topology *t; hwloc_topology_diff_t d; unsigned long f; hwloc_topology_diff_apply(t, d, f); VERIF_CANARY(); }
#endif
