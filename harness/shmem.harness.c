/* Plain harnesses for shmem.c (C19). */
#define R8(n) (((n) + 7UL) & ~7UL)

/* (1) the two allocators advance identically: the induction step of "length suffices" */
void hp_tma_allocators_agree(void)
{
  size_t len = nondet_size_t(), counter = nondet_size_t(), before, off = nondet_size_t();
  struct hwloc_tma t1, t2; void *p1, *p2; char *cur;
  __CPROVER_assume(len <= 4096 && counter <= ((size_t)1 << 60) && off <= 4096 && off % 8 == 0);
  before = counter;
  t1.data = &counter; t1.malloc = tma_get_length_malloc; t1.dontfree = 0;
  p1 = tma_get_length_malloc(&t1, len);
  cur = verif_mapping + off;
  t2.data = cur; t2.malloc = tma_shmem_malloc; t2.dontfree = 1;
  p2 = tma_shmem_malloc(&t2, len);
  __CPROVER_assert(p2 == (void *)cur, "the shmem allocator returns the old cursor");
  __CPROVER_assert((size_t)((char *)t2.data - cur) == counter - before, "both passes advance by the same amount for the same request");
  __CPROVER_assert(counter - before >= len && counter - before < len + 8 && (counter - before) % 8 == 0, "the amount is the request rounded up to 8");
  free(p1);
  VERIF_CANARY();
}

static void setup_requests(void)
{
  unsigned k;
  for (k = 0; k < NREQ; k++) { req_size[k] = nondet_size_t(); __CPROVER_assume(req_size[k] <= 2048); }
  __CPROVER_assume(req_size[0] >= sizeof(struct hwloc_topology) || 1);
  dup_fails = nondet_bool();
  verif_pagesize = nondet_ulong();
  __CPROVER_assume(verif_pagesize == 4096 || verif_pagesize == 8192 || verif_pagesize == 16384 || verif_pagesize == 65536);
  verif_mmap_calls = 0; verif_munmap_calls = 0;
}

/* (2) get_length: page multiple, covers header + every rounded request; flags rejected */
void hp_hwloc_shmem_topology_get_length(void)
{
  size_t length = 12345, sum = 0; unsigned long flags = nondet_ulong(); int r; unsigned k;
  struct hwloc_topology *topo = (struct hwloc_topology *)0;
  setup_requests();
  errno = 0;
  r = hwloc_shmem_topology_get_length(topo, &length, flags);
  for (k = 0; k < NREQ; k++) sum += R8(req_size[k]);
  if (flags) { __CPROVER_assert(r == -1 && errno == EINVAL && length == 12345, "unknown flags: -1/EINVAL, *lengthp untouched"); }
  else if (r == 0) {
    __CPROVER_assert(length % verif_pagesize == 0, "length is a multiple of the page size");
    __CPROVER_assert(length >= R8(sizeof(struct hwloc_shmem_header)) + sum, "length covers the padded header and every (rounded) block dup allocates");
    __CPROVER_assert(length < R8(sizeof(struct hwloc_shmem_header)) + sum + verif_pagesize + 8, "and not more than a page beyond");
  } else __CPROVER_assert(r == -1 && length == 12345, "failure leaves *lengthp untouched");
  VERIF_CANARY();
}

/* (3) write with the length computed by get_length never allocates outside the mapping */
void hp_hwloc_shmem_topology_write_fits(void)
{
  size_t length = 0; int r; unsigned k = nondet_unsigned();
  struct hwloc_topology *topo = (struct hwloc_topology *)0;
  setup_requests();
  verif_pagesize = 4096;
  r = hwloc_shmem_topology_get_length(topo, &length, 0);
  __CPROVER_assume(r == 0 && length <= 8192);            /* the mapping object is 16 KiB, other addresses start at 8 KiB */
  verif_mmap_mode = nondet_int(); __CPROVER_assume(verif_mmap_mode >= 0 && verif_mmap_mode <= 2);
  errno = 0;
  r = hwloc_shmem_topology_write(topo, 3, 0, verif_mapping, length, 0);
  if (verif_mmap_calls) __CPROVER_assert(verif_mmap_want == (void *)verif_mapping && verif_mmap_len == length, "mmap is asked for exactly (address, length)");
  if (verif_mmap_calls && verif_mmap_mode == 2) __CPROVER_assert(r == -1 && errno == EBUSY && verif_munmap_calls == 1, "another address: unmapped, -1/EBUSY");
  if (verif_mmap_calls && verif_mmap_mode == 1 && k < NREQ && req_ptr[k]) {
    __CPROVER_assert((char *)req_ptr[k] >= verif_mapping + R8(sizeof(struct hwloc_shmem_header)), "every block starts after the header");
    __CPROVER_assert((char *)req_ptr[k] + req_size[k] <= verif_mapping + length, "every block ends inside the mapping");
  }
  if (r == 0) {
    /* an adopter maps the file read-only: consulting calls on the adopted copy must never have to refresh (write) the lazily
     * filled distances / memory-attribute caches, so write() has to refresh THE COPY before it releases the mapping */
    __CPROVER_assert(verif_dist_refresh_after_dup && verif_last_dist_refresh == (hwloc_topology_t)req_ptr[0], "write(): the distances cache of the shared copy is refreshed before the mapping is released");
    __CPROVER_assert(verif_memattrs_refresh_after_dup && verif_last_memattrs_refresh == (hwloc_topology_t)req_ptr[0], "write(): the memory-attribute cache of the shared copy is refreshed before the mapping is released");
    __CPROVER_assert(verif_munmap_calls == 1, "write(): the mapping is released exactly once on success");
  }
  VERIF_CANARY();
}

/* (4) adopt: flags, header and address/length mismatches are refused with EINVAL before mapping anything;
 * a mapping at another address gives EBUSY and is released */
void hp_hwloc_shmem_topology_adopt_header(void)
{
  hwloc_topology_t out = (hwloc_topology_t)0; unsigned long flags = nondet_ulong(); size_t length = nondet_size_t(); int r; unsigned i;
  struct hwloc_shmem_header h;
  for (i = 0; i < sizeof(verif_header_bytes); i++) verif_header_bytes[i] = (unsigned char)nondet_char();
  __CPROVER_assume(length >= 4096 && length <= 8192);
  verif_mmap_calls = 0; verif_munmap_calls = 0;
  verif_mmap_mode = nondet_int(); __CPROVER_assume(verif_mmap_mode == 0 || verif_mmap_mode == 2);   /* the success path needs a real topology */
  memcpy(&h, verif_header_bytes, sizeof(h));
  errno = 0;
  r = hwloc_shmem_topology_adopt(&out, 3, 0, verif_mapping, length, flags);
  __CPROVER_assert(r == -1 && out == (hwloc_topology_t)0, "no topology is returned");
  if (flags) __CPROVER_assert(errno == EINVAL && verif_mmap_calls == 0, "unknown flags: EINVAL before any system call");
  if (verif_mmap_calls) {
    __CPROVER_assert(h.header_version == 1 && h.header_length == R8(sizeof(h)) && h.mmap_address == (uint64_t)(uintptr_t)verif_mapping && h.mmap_length == length,
                     "the file is only mapped when version, header length, address and length all match");
    __CPROVER_assert(verif_mmap_prot == PROT_READ, "adopted mappings are read-only");
    if (verif_mmap_mode == 2) __CPROVER_assert(errno == EBUSY && verif_munmap_calls == 1, "unavailable address range: EBUSY, mapping released");
  }
  VERIF_CANARY();
}
