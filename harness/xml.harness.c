/* Harnesses for the backend-independent XML import code (C06): the backend is the executable contract of the state API. */
static const char *attr_pool[] = { "nbobjs", "type", "indexing", "kind", "name", "length", "value", "encoding", "zz", "cpuset", "forced_efficiency",
                                  "target_obj_gp_index", "target_obj_type", "initiator_cpuset", "initiator_obj_gp_index", "initiator_obj_type",
                                  "obj_depth", "obj_index", "obj_attr_type", "obj_attr_index", "obj_attr_name", "obj_attr_oldvalue", "obj_attr_newvalue" };
static const char *tag_pool[] = { "info", "indexes", "u64values", "zz", "diff" };
#define NPOOL(a) (sizeof(a) / sizeof(*(a)))
static int honor_length;           /* get_content: 1 = a delivered content has exactly the expected length (what both backends guarantee) */
static int content_open[2];        /* ghost: get_content succeeded on this element and close_content has not been called since */
static unsigned attrs_left[2], children_left;      /* per element: [0] the element under import, [1] its current child */
static struct hwloc_xml_backend_data_s bdata;
static struct hwloc__xml_import_state_s st0;
static char msgprefix[] = "verif";

static int v_next_attr(struct hwloc__xml_import_state_s *state, char **namep, char **valuep)
{
  unsigned which = state == &st0 ? 0 : 1, k = nondet_unsigned();
  if (!attrs_left[which] || nondet_bool()) return -1;
  attrs_left[which]--;
  __CPROVER_assume(k < NPOOL(attr_pool));
  *namep = (char *)attr_pool[k];
  *valuep = (k == 7 && nondet_bool()) ? (char *)"base64" : verif_exact_string(XV);      /* attr_pool[7] == "encoding" */
  verif_num_is_count = (k == 0);          /* attr_pool[0] == "nbobjs": see the number parser in the driver */
  return 0;
}
static int v_find_child(struct hwloc__xml_import_state_s *state, struct hwloc__xml_import_state_s *childstate, char **tagp)
{
  unsigned k = nondet_unsigned();
  if (!children_left) return nondet_bool() ? 0 : -1;
  if (nondet_bool()) return nondet_bool() ? 0 : -1;
  children_left--;
  __CPROVER_assume(k < NPOOL(tag_pool));
  childstate->parent = state; childstate->global = state->global;
  attrs_left[1] = XA2;
  *tagp = (char *)tag_pool[k];
  return 1;
}
static int v_close_tag(struct hwloc__xml_import_state_s *state) { (void)state; return nondet_bool() ? 0 : -1; }
static void v_close_child(struct hwloc__xml_import_state_s *state) { (void)state; }
static int v_get_content(struct hwloc__xml_import_state_s *state, const char **beginp, size_t expected_length)
{
  unsigned which = state == &st0 ? 0 : 1;
  verif_num_is_count = 0;
  if (nondet_bool()) return -1;
  if (honor_length) {
    if (expected_length > XB) return -1;
    *beginp = verif_exact_string_of(XB, expected_length);
    content_open[which] = 1;
    return expected_length ? 1 : nondet_bool();          /* 0: auto-closed element, empty content */
  }
  *beginp = verif_exact_string(XB);
  content_open[which] = 1;
  return nondet_bool() ? 1 : 0;
}
static void v_close_content(struct hwloc__xml_import_state_s *state)
{
  unsigned which = state == &st0 ? 0 : 1;
  /* API contract (private/xml.h; the nolibxml backend puts back the '<' it overwrote at the content's end): only after a get_content() that delivered something */
  __CPROVER_assert(content_open[which], "close_content() is only called after a successful get_content() on the same element");
  content_open[which] = 0;
}

static void mk_backend(void)
{
  bdata.next_attr = v_next_attr; bdata.find_child = v_find_child; bdata.close_tag = v_close_tag; bdata.close_child = v_close_child;
  bdata.get_content = v_get_content; bdata.close_content = v_close_content; bdata.msgprefix = msgprefix;
  bdata.version_major = nondet_unsigned(); bdata.version_minor = nondet_unsigned();
  st0.parent = (struct hwloc__xml_import_state_s *)0; st0.global = &bdata;
  attrs_left[0] = XA; attrs_left[1] = 0; children_left = XC; content_open[0] = content_open[1] = 0; honor_length = 0;
}

/* hwloc__xml_import_distances for ANY element the backend may deliver: memory safe (every store into indexes / u64values /
 * different_types inside the arrays sized from nbobjs), returns, and a matrix is only handed to the core complete */
void hp_xml_import_distances(void)
{
  static struct hwloc_topology topo; int r; int hetero = nondet_bool();
  VERIF_GHOSTS();
  mk_backend();
  topo.flags = nondet_ulong();
  r = hwloc__xml_import_distances(&topo, &bdata, &st0, hetero);
  __CPROVER_assert(r == 0 || r == -1, "returns 0 or -1");
  __CPROVER_assert(verif_add_calls <= 1, "at most one matrix is handed to the core");
  VERIF_CANARY();
}


/* hwloc__xml_import_userdata for ANY attributes and content the backend may deliver, with or without an import callback,
 * decoded or not: memory safe, the callback receives a readable buffer of the announced length, and the state API is used
 * according to its contract (close_content only after a successful get_content) */
static unsigned cb_calls;
static void v_import_cb(hwloc_topology_t topology, hwloc_obj_t obj, const char *name, const void *buffer, size_t length)
{
  (void)topology; (void)obj;
  if (name) (void)name[0];
  __CPROVER_assert(length == 0 || __CPROVER_r_ok(buffer, length), "the import callback receives `length` readable bytes");
  cb_calls++;
}
void hp_xml_import_userdata(void)
{
  static struct hwloc_topology topo; static struct hwloc_obj obj; int r;
  VERIF_GHOSTS();
  mk_backend(); honor_length = 1;
  topo.userdata_import_cb = nondet_bool() ? v_import_cb : 0; topo.userdata_not_decoded = nondet_bool();
  r = hwloc__xml_import_userdata(&topo, &obj, &st0);
  __CPROVER_assert(r == 0 || r == -1, "returns 0 or -1");
  __CPROVER_assert(cb_calls <= 1, "the callback is invoked at most once per element");
  VERIF_CANARY();
}


/* hwloc__xml_import_cpukind for ANY attributes and children the backend may deliver: memory safe, returns 0/-1, and every
 * cpuset it allocates is released exactly once (freed, or handed to hwloc_internal_cpukinds_register) on every path;
 * the info list is released exactly once on every path that reaches the registration or an error after the attributes */
void hp_xml_import_cpukind(void)
{
  static struct hwloc_topology topo; int r;
  VERIF_GHOSTS();
  mk_backend();
  topo.flags = nondet_ulong();
  r = hwloc__xml_import_cpukind(&topo, &st0);
  __CPROVER_assert(r == 0 || r == -1, "returns 0 or -1");
  __CPROVER_assert(verif_bm_allocs <= 1 && verif_bm_released == verif_bm_allocs, "the cpuset is allocated at most once and released exactly once (freed or handed to the core)");
  __CPROVER_assert(verif_register_calls <= 1 && verif_infos_freed <= 1, "at most one registration, the info list is released at most once");
  VERIF_CANARY();
}


/* hwloc__xml_import_memattr_value for ANY attributes the backend may deliver and any attribute flags: memory safe, 0/-1,
 * hwloc_internal_memattr_set_value is called at most once and only with a valid target type and a well-formed initiator,
 * and an initiator cpuset is released exactly once (set_value copies it) */
void hp_xml_import_memattr_value(void)
{
  static struct hwloc_topology topo; int r; unsigned long flags = nondet_ulong(); hwloc_memattr_id_t id = nondet_unsigned();
  VERIF_GHOSTS();
  mk_backend(); attrs_left[0] = 6;
  r = hwloc__xml_import_memattr_value(&topo, id, flags, &st0);
  __CPROVER_assert(r == 0 || r == -1, "returns 0 or -1");
  __CPROVER_assert(verif_setvalue_calls <= 1 && (r == 0) == (verif_setvalue_calls == 1), "a value is stored exactly when the element is accepted");
  __CPROVER_assert(verif_bm_allocs <= 1 && verif_bm_released == verif_bm_allocs, "an initiator cpuset is released exactly once");
  VERIF_CANARY();
}


/* hwloc__xml_import_diff for ANY sequence of <= XC <diff> (or unknown) children with ANY attributes: memory safe, 0/-1, and
 * nothing it allocated is lost: on success the returned list owns every allocation (the harness releases it and the
 * counter returns to zero), on failure every allocation has been released */
void hp_xml_import_diff(void)
{
  hwloc_topology_diff_t first = (hwloc_topology_diff_t)0, d, next; int r;
  VERIF_GHOSTS();
  mk_backend(); verif_live_allocs = 0;
  r = hwloc__xml_import_diff(&st0, &first);
  __CPROVER_assert(r == 0 || r == -1, "returns 0 or -1");
  if (r == -1) __CPROVER_assert(first == 0, "failure: no list is returned");
  for (d = first; d; d = next) {            /* what hwloc_topology_diff_destroy() does */
    next = d->generic.next;
    if (d->generic.type == HWLOC_TOPOLOGY_DIFF_OBJ_ATTR && (d->obj_attr.diff.generic.type == HWLOC_TOPOLOGY_DIFF_OBJ_ATTR_NAME || d->obj_attr.diff.generic.type == HWLOC_TOPOLOGY_DIFF_OBJ_ATTR_INFO)) {
      verif_counting_free(d->obj_attr.diff.string.name); verif_counting_free(d->obj_attr.diff.string.oldvalue); verif_counting_free(d->obj_attr.diff.string.newvalue);
    }
    verif_counting_free(d);
  }
  __CPROVER_assert(verif_live_allocs == 0, "no allocation of the import is lost (on failure the partial list is released, on success the returned list owns everything)");
  VERIF_CANARY();
}
