/* Harnesses for the backend-independent XML import code (C06): the backend is the executable contract of the state API. */
static const char *attr_pool[] = { "nbobjs", "type", "indexing", "kind", "name", "length", "value", "zz" };
static const char *tag_pool[] = { "info", "indexes", "u64values", "zz" };
#define NPOOL(a) (sizeof(a) / sizeof(*(a)))
static unsigned attrs_left[2], children_left;      /* per element: [0] the element under import, [1] its current child */
static struct hwloc_xml_backend_data_s bdata;
static struct hwloc__xml_import_state_s st0;
static char msgprefix[] = "verif";

static int v_next_attr(struct hwloc__xml_import_state_s *state, char **namep, char **valuep)
{
  unsigned which = state == &st0 ? 0 : 1, k = nondet_unsigned();
  if (!attrs_left[which] || nondet_bool()) return -1;
  attrs_left[which]--;
  __CPROVER_assume(k < NPOOL(attr_pool));
  *namep = (char *)attr_pool[k];
  *valuep = verif_exact_string(XV);
  verif_num_is_count = (k == 0);          /* attr_pool[0] == "nbobjs": see the number parser in the driver */
  return 0;
}
static int v_find_child(struct hwloc__xml_import_state_s *state, struct hwloc__xml_import_state_s *childstate, char **tagp)
{
  unsigned k = nondet_unsigned();
  if (!children_left) return nondet_bool() ? 0 : -1;
  if (nondet_bool()) return nondet_bool() ? 0 : -1;
  children_left--;
  __CPROVER_assume(k < NPOOL(tag_pool));
  childstate->parent = state; childstate->global = state->global;
  attrs_left[1] = XA2;
  *tagp = (char *)tag_pool[k];
  return 1;
}
static int v_close_tag(struct hwloc__xml_import_state_s *state) { (void)state; return nondet_bool() ? 0 : -1; }
static void v_close_child(struct hwloc__xml_import_state_s *state) { (void)state; }
static int v_get_content(struct hwloc__xml_import_state_s *state, const char **beginp, size_t expected_length)
{
  (void)state; (void)expected_length;
  verif_num_is_count = 0;
  if (nondet_bool()) return -1;
  *beginp = verif_exact_string(XB);
  return nondet_bool() ? 1 : 0;
}
static void v_close_content(struct hwloc__xml_import_state_s *state) { (void)state; }

static void mk_backend(void)
{
  bdata.next_attr = v_next_attr; bdata.find_child = v_find_child; bdata.close_tag = v_close_tag; bdata.close_child = v_close_child;
  bdata.get_content = v_get_content; bdata.close_content = v_close_content; bdata.msgprefix = msgprefix;
  bdata.version_major = nondet_unsigned(); bdata.version_minor = nondet_unsigned();
  st0.parent = (struct hwloc__xml_import_state_s *)0; st0.global = &bdata;
  attrs_left[0] = XA; attrs_left[1] = 0; children_left = XC;
}

/* hwloc__xml_import_distances for ANY element the backend may deliver: memory safe (every store into indexes / u64values /
 * different_types inside the arrays sized from nbobjs), returns, and a matrix is only handed to the core complete */
void hp_xml_import_distances(void)
{
  static struct hwloc_topology topo; int r; int hetero = nondet_bool();
  VERIF_GHOSTS();
  mk_backend();
  topo.flags = nondet_ulong();
  r = hwloc__xml_import_distances(&topo, &bdata, &st0, hetero);
  __CPROVER_assert(r == 0 || r == -1, "returns 0 or -1");
  __CPROVER_assert(verif_add_calls <= 1, "at most one matrix is handed to the core");
  VERIF_CANARY();
}
