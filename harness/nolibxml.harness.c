/* Bounded harnesses for the nolibxml import scanners (C06): an ARBITRARY buffer of BL bytes followed by the
 * terminating NUL (the shape hwloc_nolibxml_backend_init gives nbdata->buffer: malloc(buflen+1), buffer[buflen]=0),
 * allocated with its exact size, cursors anywhere inside it: every read and write stays inside the buffer, the
 * functions return, and the cursors they leave are still inside the buffer. */
#ifndef BL
#define BL 7
#endif
static char *xbuf;
static struct hwloc__xml_import_state_s st, child, parent;
static void mkbuf(void)
{
  unsigned i;
  xbuf = malloc(BL + 1);
  __CPROVER_assume(xbuf != 0);
  for (i = 0; i < BL; i++) xbuf[i] = nondet_char();
  xbuf[BL] = 0;
}
static char *cursor(void) { size_t o = nondet_size_t(); __CPROVER_assume(o <= BL); return xbuf + o; }
#define INSIDE(p) ((p) == 0 || ((char *)(p) >= xbuf && (char *)(p) <= xbuf + BL))

void hp_nolibxml_next_attr(void)
{
  hwloc__nolibxml_import_state_data_t n = (void *)st.data; char *name = 0, *value = 0; int r;
  mkbuf();
  n->attrbuffer = nondet_bool() ? (char *)0 : cursor(); n->tagbuffer = cursor(); n->tagname = xbuf; n->closed = nondet_bool();
  /* invariant established by find_child (asserted in hp_nolibxml_find_child): the attribute text is a NUL-terminated slice
   * whose terminator (the former '>') lies BEFORE the final byte of the buffer */
  if (n->attrbuffer) { size_t z = nondet_size_t(); __CPROVER_assume(z < BL && xbuf + z >= n->attrbuffer && xbuf[z] == 0); }
  r = hwloc__nolibxml_import_next_attr(&st, &name, &value);
  __CPROVER_assert(r == 0 || r == -1, "returns 0 or -1");
  __CPROVER_assert(INSIDE(n->attrbuffer), "attribute cursor stays inside the buffer");
  if (r == 0) __CPROVER_assert(INSIDE(name) && INSIDE(value) && name != 0 && value != 0, "name and value point inside the buffer");
  VERIF_CANARY();
}
void hp_nolibxml_find_child(void)
{
  hwloc__nolibxml_import_state_data_t n = (void *)st.data, c = (void *)child.data; char *tag = 0; int r;
  mkbuf();
  n->attrbuffer = 0; n->tagbuffer = cursor(); n->tagname = xbuf; n->closed = nondet_bool();
  r = hwloc__nolibxml_import_find_child(&st, &child, &tag);
  __CPROVER_assert(r == 0 || r == 1 || r == -1, "returns -1, 0 or 1");
  if (r == 1) __CPROVER_assert(INSIDE(tag) && tag != 0 && INSIDE(c->tagbuffer) && INSIDE(c->attrbuffer) && INSIDE((char *)c->tagname), "child cursors stay inside the buffer");
  if (r == 1 && c->attrbuffer) __CPROVER_assert((size_t)(c->attrbuffer - xbuf) + strlen(c->attrbuffer) < BL, "the child's attribute text ends before the final byte of the buffer (what next_attr relies on)");
  VERIF_CANARY();
}
void hp_nolibxml_close_tag(void)
{
  hwloc__nolibxml_import_state_data_t n = (void *)st.data; int r; size_t o = nondet_size_t();
  mkbuf();
  __CPROVER_assume(o <= BL);
  n->attrbuffer = 0; n->tagbuffer = cursor(); n->tagname = xbuf + o; n->closed = nondet_bool();
  r = hwloc__nolibxml_import_close_tag(&st);
  __CPROVER_assert(r == 0 || r == -1, "returns 0 or -1");
  __CPROVER_assert(INSIDE(n->tagbuffer), "tag cursor stays inside the buffer");
  VERIF_CANARY();
}
void hp_nolibxml_get_content(void)
{
  hwloc__nolibxml_import_state_data_t n = (void *)st.data; const char *begin = 0; int r; size_t exp = nondet_size_t();
  mkbuf();
  n->attrbuffer = 0; n->tagbuffer = cursor(); n->tagname = xbuf; n->closed = nondet_bool();
  r = hwloc__nolibxml_import_get_content(&st, &begin, exp);
  __CPROVER_assert(r == 0 || r == 1 || r == -1, "returns -1, 0 or 1");
  __CPROVER_assert(INSIDE(n->tagbuffer), "tag cursor stays inside the buffer");
  if (r == 1) { __CPROVER_assert(INSIDE((char *)begin) && strlen(begin) == exp, "content is the expected NUL-terminated slice of the buffer"); hwloc__nolibxml_import_close_content(&st); }
  VERIF_CANARY();
}


/* hwloc_nolibxml_look_init on a buffer made of a concrete document head (one job per head) followed by BL arbitrary bytes
 * and the terminating NUL, allocated with its exact size: returns 0 or -1, every read stays inside the buffer, and on
 * success the tag cursor it leaves for find_child points inside the buffer */
#ifndef XHEAD
#define XHEAD "<topology version=\"2.0\""
#endif
void hp_nolibxml_look_init(void)
{
  static const char head[] = XHEAD;
  struct hwloc_xml_backend_data_s bdata; struct hwloc__nolibxml_backend_data_s nbdata;
  hwloc__nolibxml_import_state_data_t n = (void *)st.data; unsigned i; int r; size_t total = sizeof(head) - 1 + BL;
  xbuf = malloc(sizeof(head) - 1 + BL + 1);
  __CPROVER_assume(xbuf != 0);
  for (i = 0; i < sizeof(head) - 1; i++) xbuf[i] = head[i];
  for (i = 0; i < BL; i++) xbuf[sizeof(head) - 1 + i] = nondet_char();
  xbuf[total] = 0;
  nbdata.buffer = xbuf; nbdata.buflen = total + 1; bdata.data = &nbdata; st.global = &bdata;
  r = hwloc_nolibxml_look_init(&bdata, &st);
  __CPROVER_assert(r == 0 || r == -1, "returns 0 or -1");
  if (r == 0) __CPROVER_assert(n->tagbuffer != 0 && n->tagbuffer >= xbuf && n->tagbuffer <= xbuf + total, "on success the tag cursor points inside the buffer");
  VERIF_CANARY();
}
