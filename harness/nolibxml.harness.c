/* Bounded harnesses for the nolibxml import scanners (C06): an ARBITRARY buffer of BL bytes followed by the
 * terminating NUL (the shape hwloc_nolibxml_backend_init gives nbdata->buffer: malloc(buflen+1), buffer[buflen]=0),
 * allocated with its exact size, cursors anywhere inside it: every read and write stays inside the buffer, the
 * functions return, and the cursors they leave are still inside the buffer. */
#ifndef BL
#define BL 7
#endif
static char *xbuf;
static struct hwloc__xml_import_state_s st, child, parent;
static void mkbuf(void)
{
  unsigned i;
  xbuf = malloc(BL + 1);
  __CPROVER_assume(xbuf != 0);
  for (i = 0; i < BL; i++) xbuf[i] = nondet_char();
  xbuf[BL] = 0;
}
static char *cursor(void) { size_t o = nondet_size_t(); __CPROVER_assume(o <= BL); return xbuf + o; }
#define INSIDE(p) ((p) == 0 || ((char *)(p) >= xbuf && (char *)(p) <= xbuf + BL))

void hp_nolibxml_next_attr(void)
{
  hwloc__nolibxml_import_state_data_t n = (void *)st.data; char *name = 0, *value = 0; int r;
  mkbuf();
  n->attrbuffer = nondet_bool() ? (char *)0 : cursor(); n->tagbuffer = cursor(); n->tagname = xbuf; n->closed = nondet_bool();
  /* invariant established by find_child (asserted in hp_nolibxml_find_child): the attribute text is a NUL-terminated slice
   * whose terminator (the former '>') lies BEFORE the final byte of the buffer */
  if (n->attrbuffer) { size_t z = nondet_size_t(); __CPROVER_assume(z < BL && xbuf + z >= n->attrbuffer && xbuf[z] == 0); }
  r = hwloc__nolibxml_import_next_attr(&st, &name, &value);
  __CPROVER_assert(r == 0 || r == -1, "returns 0 or -1");
  __CPROVER_assert(INSIDE(n->attrbuffer), "attribute cursor stays inside the buffer");
  if (r == 0) __CPROVER_assert(INSIDE(name) && INSIDE(value) && name != 0 && value != 0, "name and value point inside the buffer");
  VERIF_CANARY();
}
void hp_nolibxml_find_child(void)
{
  hwloc__nolibxml_import_state_data_t n = (void *)st.data, c = (void *)child.data; char *tag = 0; int r;
  mkbuf();
  n->attrbuffer = 0; n->tagbuffer = cursor(); n->tagname = xbuf; n->closed = nondet_bool();
  r = hwloc__nolibxml_import_find_child(&st, &child, &tag);
  __CPROVER_assert(r == 0 || r == 1 || r == -1, "returns -1, 0 or 1");
  if (r == 1) __CPROVER_assert(INSIDE(tag) && tag != 0 && INSIDE(c->tagbuffer) && INSIDE(c->attrbuffer) && INSIDE((char *)c->tagname), "child cursors stay inside the buffer");
  if (r == 1 && c->attrbuffer) __CPROVER_assert((size_t)(c->attrbuffer - xbuf) + strlen(c->attrbuffer) < BL, "the child's attribute text ends before the final byte of the buffer (what next_attr relies on)");
  VERIF_CANARY();
}
void hp_nolibxml_close_tag(void)
{
  hwloc__nolibxml_import_state_data_t n = (void *)st.data; int r; size_t o = nondet_size_t();
  mkbuf();
  __CPROVER_assume(o <= BL);
  n->attrbuffer = 0; n->tagbuffer = cursor(); n->tagname = xbuf + o; n->closed = nondet_bool();
  r = hwloc__nolibxml_import_close_tag(&st);
  __CPROVER_assert(r == 0 || r == -1, "returns 0 or -1");
  __CPROVER_assert(INSIDE(n->tagbuffer), "tag cursor stays inside the buffer");
  VERIF_CANARY();
}
void hp_nolibxml_get_content(void)
{
  hwloc__nolibxml_import_state_data_t n = (void *)st.data; const char *begin = 0; int r; size_t exp = nondet_size_t();
  mkbuf();
  n->attrbuffer = 0; n->tagbuffer = cursor(); n->tagname = xbuf; n->closed = nondet_bool();
  r = hwloc__nolibxml_import_get_content(&st, &begin, exp);
  __CPROVER_assert(r == 0 || r == 1 || r == -1, "returns -1, 0 or 1");
  __CPROVER_assert(INSIDE(n->tagbuffer), "tag cursor stays inside the buffer");
  if (r == 1) { __CPROVER_assert(INSIDE((char *)begin) && strlen(begin) == exp, "content is the expected NUL-terminated slice of the buffer"); hwloc__nolibxml_import_close_content(&st); }
  VERIF_CANARY();
}
