/* Plain harnesses for the three bitmap printers (C04).  The bitmap is an explicit object with NW stored
 * words of arbitrary content, any count 1..NW, either tail: the loops are closed by invariants, NW only
 * bounds the size of the array object. */
#ifndef NW
#define NW 64
#endif
struct verif_words { unsigned long w[NW]; };
struct verif_words nondet_words(void);
static struct verif_words verif_words;
static struct hwloc_bitmap_s verif_set;

static char *verif_mkbuf(size_t size)
{
  char *buf = (char *)0;
  verif_arena = nondet_arena();
  verif_shadow = verif_arena;
  if (size > 0 || nondet_bool())
    buf = verif_arena.b + ARENA_PRE;
  verif_size = size; verif_buf = buf; verif_snprintf_sum = 0; verif_snprintf_neg = 0; verif_last_nul = 0; verif_snprintf_calls = 0;
  return buf;
}
static void verif_mkset(void)
{
  verif_words = nondet_words();
  verif_set.ulongs = verif_words.w;
  verif_set.ulongs_allocated = NW;
  verif_set.ulongs_count = nondet_unsigned();
  verif_set.infinite = nondet_bool();
  __CPROVER_assume(verif_set.ulongs_count >= 1 && verif_set.ulongs_count <= NW);   /* REP, proved invariant under C03 */
}
#define CHECK_SNPRINTF_CONTRACT(r, buf, size) do { \
    __CPROVER_assert(verif_snprintf_neg ? (r) < 0 : (r) >= 0, "negative iff the libc call failed"); \
    __CPROVER_assert(verif_snprintf_neg || (long)(r) == verif_snprintf_sum, "returns the untruncated length (sum of the pieces)"); \
    __CPROVER_assert((size) == 0 || verif_snprintf_neg || (buf)[0] == 0 || (verif_last_nul < (size) && (buf)[verif_last_nul] == 0), "NUL-terminated inside the buffer when buflen>0"); \
    __CPROVER_assert(VERIF_FRAME_OK, "nothing written outside [buf, buf+buflen)"); \
  } while (0)

#define PRINTER_HARNESS(fn) void hp_##fn(void) { size_t size = nondet_size_t(); char *buf; int r; \
  __CPROVER_assume(size <= BUFMAX); VERIF_GHOSTS(); verif_mkset(); buf = verif_mkbuf(size); \
  r = fn(buf, size, &verif_set); CHECK_SNPRINTF_CONTRACT(r, buf, size); VERIF_CANARY(); }
PRINTER_HARNESS(hwloc_bitmap_snprintf)
PRINTER_HARNESS(hwloc_bitmap_list_snprintf)
PRINTER_HARNESS(hwloc_bitmap_taskset_snprintf)

/* asprintf variants: both passes run on the real printers (under their loop invariants); the result block is the
 * function's own malloc(len+1): any store or load outside it is a bounds violation. */
#define ASPRINTF_HARNESS(fn) void hp_##fn(void) { char *str = (char *)0; int r; \
  VERIF_GHOSTS(); verif_mkset(); verif_buf = (char *)0; verif_snprintf_neg = 0; \
  r = fn(&str, &verif_set); \
  __CPROVER_assert(r >= -1, "returns a length or -1"); \
  __CPROVER_assert(r < 0 || str != (char *)0, "a string is returned on success"); \
  VERIF_CANARY(); }
ASPRINTF_HARNESS(hwloc_bitmap_asprintf)
ASPRINTF_HARNESS(hwloc_bitmap_list_asprintf)
ASPRINTF_HARNESS(hwloc_bitmap_taskset_asprintf)
