/* hwloc__imattr_refresh after the topology changed (restrict / dup / XML load invalidated the cache): RT targets with RI
 * initiators each (object or cpuset initiators, arbitrary values).  Object gp of the harness survives iff verif_survive[gp];
 * a cpuset initiator survives iff its set still intersects the root cpuset.  Expected result, computed by the harness from
 * the definition: a target survives iff its object survives and (the attribute has no initiators or at least one of its
 * initiators survives); survivors stay in order with their values; surviving cpuset initiators are intersected with the
 * root cpuset; cpusets of removed initiators are released exactly once; the cache is marked valid. */
#ifndef RT
#define RT 2
#endif
#ifndef RI
#define RI 2
#endif
static struct hwloc_topology topo; static struct hwloc_obj root; static hwloc_obj_t lvl0[1]; static hwloc_obj_t *levels[1]; static unsigned nbobjs[1];
static struct hwloc_bitmap_s rootset, isets[RT][RI];
static struct hwloc_internal_memattr_s attr;
struct shadow_ini { int is_obj; uint64_t gp; unsigned char bits; hwloc_uint64_t value; int alive; };
struct shadow_tg { uint64_t gp; hwloc_uint64_t nival; unsigned ni; struct shadow_ini ini[RI]; int alive; };
static struct shadow_tg sh[RT];

void hp_hwloc__imattr_refresh(void)
{
  struct hwloc_internal_memattr_target_s *tg; unsigned t, i, nt = nondet_unsigned(), k, l; int need = nondet_bool();
  __CPROVER_assume(nt <= RT);
  VERIF_GHOSTS();
  for (k = 0; k < RF_NOBJ; k++) { verif_survive[k] = nondet_bool(); verif_objs[k].gp_index = k; }
  rootset.bits = nondet_char(); rootset.live = 1; root.cpuset = &rootset; lvl0[0] = &root; levels[0] = lvl0; nbobjs[0] = 1; topo.levels = levels; topo.level_nbobjects = nbobjs; topo.nb_levels = 1;
  tg = malloc(RT * sizeof(*tg)); __CPROVER_assume(tg != 0);
  attr.name = (char *)"x"; attr.flags = need ? (HWLOC_MEMATTR_FLAG_HIGHER_FIRST | HWLOC_MEMATTR_FLAG_NEED_INITIATOR) : HWLOC_MEMATTR_FLAG_HIGHER_FIRST; attr.iflags = 0;
  attr.nr_targets = nt; attr.targets = tg;
  for (t = 0; t < RT; t++) {
    tg[t].obj = (hwloc_obj_t)0; tg[t].type = HWLOC_OBJ_NUMANODE; tg[t].os_index = nondet_unsigned();
    tg[t].gp_index = nondet_ulong(); __CPROVER_assume(tg[t].gp_index < RF_NOBJ);
    tg[t].noinitiator_value = nondet_ulong();
    tg[t].nr_initiators = need ? nondet_unsigned() : 0; __CPROVER_assume(tg[t].nr_initiators <= RI);
    tg[t].initiators = need ? malloc(RI * sizeof(*tg[t].initiators)) : 0; __CPROVER_assume(!need || tg[t].initiators != 0);
    sh[t].gp = tg[t].gp_index; sh[t].nival = tg[t].noinitiator_value; sh[t].ni = tg[t].nr_initiators;
    for (i = 0; i < RI; i++) if (need) {
      struct hwloc_internal_memattr_initiator_s *im = &tg[t].initiators[i];
      im->value = nondet_ulong(); sh[t].ini[i].value = im->value;
      if (nondet_bool()) {
        im->initiator.type = HWLOC_LOCATION_TYPE_OBJECT; im->initiator.location.object.obj = (hwloc_obj_t)0; im->initiator.location.object.type = HWLOC_OBJ_PACKAGE;
        im->initiator.location.object.gp_index = nondet_ulong(); __CPROVER_assume(im->initiator.location.object.gp_index < RF_NOBJ);
        sh[t].ini[i].is_obj = 1; sh[t].ini[i].gp = im->initiator.location.object.gp_index; sh[t].ini[i].alive = verif_survive[sh[t].ini[i].gp];
      } else {
        isets[t][i].bits = nondet_char(); isets[t][i].live = 1; isets[t][i].freed = 0;
        im->initiator.type = HWLOC_LOCATION_TYPE_CPUSET; im->initiator.location.cpuset = &isets[t][i];
        sh[t].ini[i].is_obj = 0; sh[t].ini[i].bits = isets[t][i].bits; sh[t].ini[i].alive = (isets[t][i].bits & rootset.bits) != 0;
      }
    }
    /* expected fate of the target */
    sh[t].alive = verif_survive[sh[t].gp];
    if (need) { int any = 0; for (i = 0; i < RI; i++) if (i < sh[t].ni && sh[t].ini[i].alive) any = 1; if (!any) sh[t].alive = 0; }
  }

  hwloc__imattr_refresh(&topo, &attr);

  __CPROVER_assert(attr.iflags & HWLOC_IMATTR_FLAG_CACHE_VALID, "the cache is marked valid");
  for (t = 0, k = 0; t < RT; t++) if (t < nt && sh[t].alive) {
    __CPROVER_assert(k < attr.nr_targets && attr.targets[k].gp_index == sh[t].gp && attr.targets[k].obj == &verif_objs[sh[t].gp] && attr.targets[k].noinitiator_value == sh[t].nival,
                     "surviving targets stay in order with their identity, value and a refreshed object pointer");
    if (need && k < attr.nr_targets) {
      for (i = 0, l = 0; i < RI; i++) if (i < sh[t].ni && sh[t].ini[i].alive) {
        struct hwloc_internal_memattr_initiator_s *im = &attr.targets[k].initiators[l];
        __CPROVER_assert(l < attr.targets[k].nr_initiators && im->value == sh[t].ini[i].value, "surviving initiators stay in order with their values");
        if (sh[t].ini[i].is_obj) __CPROVER_assert(im->initiator.type == HWLOC_LOCATION_TYPE_OBJECT && im->initiator.location.object.gp_index == sh[t].ini[i].gp && im->initiator.location.object.obj == &verif_objs[sh[t].ini[i].gp], "object initiators keep their identity and get a refreshed object pointer");
        else __CPROVER_assert(im->initiator.type == HWLOC_LOCATION_TYPE_CPUSET && im->initiator.location.cpuset == &isets[t][i] && isets[t][i].live && isets[t][i].bits == (sh[t].ini[i].bits & rootset.bits), "cpuset initiators are intersected with the topology cpuset");
        l++;
      }
      __CPROVER_assert(attr.targets[k].nr_initiators == l, "exactly the surviving initiators remain");
    }
    k++;
  }
  __CPROVER_assert(attr.nr_targets == k, "exactly the surviving targets remain");
  /* cpusets of removed initiators (and of removed targets' initiators) are released exactly once, the others stay allocated */
  for (t = 0; t < RT; t++) for (i = 0; i < RI; i++) if (need && t < nt && i < sh[t].ni && !sh[t].ini[i].is_obj)
    __CPROVER_assert((sh[t].alive && sh[t].ini[i].alive) ? (isets[t][i].live && isets[t][i].freed == 0) : (!isets[t][i].live && isets[t][i].freed == 1), "cpuset of a removed initiator is released exactly once, others stay allocated");
  VERIF_CANARY();
}
