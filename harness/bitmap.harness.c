/* One entry point per function under contract.  The arguments are left
 * uninitialised (nondeterministic); the enforced contract's requires clause
 * constrains them.  The canary after the call must be reachable (vacuity guard). */

#define H1(name, fn, decls, call) void h_##name(void) { decls; call; VERIF_CANARY(); }

void h_hwloc_bitmap_realloc_by_ulongs(void) { VERIF_GHOSTS(); struct hwloc_bitmap_s *s; unsigned n; hwloc_bitmap_realloc_by_ulongs(s, n); VERIF_CANARY(); }
void h_hwloc_bitmap__zero(void) { VERIF_GHOSTS(); struct hwloc_bitmap_s *s; hwloc_bitmap__zero(s); VERIF_CANARY(); }
void h_hwloc_bitmap__fill(void) { VERIF_GHOSTS(); struct hwloc_bitmap_s *s; hwloc_bitmap__fill(s); VERIF_CANARY(); }
void h_hwloc_bitmap_zero(void) { VERIF_GHOSTS(); struct hwloc_bitmap_s *s; hwloc_bitmap_zero(s); VERIF_CANARY(); }
void h_hwloc_bitmap_fill(void) { VERIF_GHOSTS(); struct hwloc_bitmap_s *s; hwloc_bitmap_fill(s); VERIF_CANARY(); }
void h_hwloc_bitmap_set(void) { VERIF_GHOSTS(); struct hwloc_bitmap_s *s; unsigned c; hwloc_bitmap_set(s, c); VERIF_CANARY(); }
void h_hwloc_bitmap_or(void) { VERIF_GHOSTS(); struct hwloc_bitmap_s *r, *a, *b; hwloc_bitmap_or(r, a, b); VERIF_CANARY(); }
void h_hwloc_bitmap_iszero(void) { VERIF_GHOSTS(); struct hwloc_bitmap_s *s; hwloc_bitmap_iszero(s); VERIF_CANARY(); }
void h_hwloc_bitmap_first(void) { VERIF_GHOSTS(); struct hwloc_bitmap_s *s; hwloc_bitmap_first(s); VERIF_CANARY(); }

void h_hwloc_bitmap_and(void) { VERIF_GHOSTS(); struct hwloc_bitmap_s *r, *a, *b; hwloc_bitmap_and(r, a, b); VERIF_CANARY(); }
void h_hwloc_bitmap_andnot(void) { VERIF_GHOSTS(); struct hwloc_bitmap_s *r, *a, *b; hwloc_bitmap_andnot(r, a, b); VERIF_CANARY(); }
void h_hwloc_bitmap_xor(void) { VERIF_GHOSTS(); struct hwloc_bitmap_s *r, *a, *b; hwloc_bitmap_xor(r, a, b); VERIF_CANARY(); }
void h_hwloc_bitmap_not(void) { VERIF_GHOSTS(); struct hwloc_bitmap_s *r, *a; hwloc_bitmap_not(r, a); VERIF_CANARY(); }
void h_hwloc_bitmap_copy(void) { VERIF_GHOSTS(); struct hwloc_bitmap_s *r, *a; hwloc_bitmap_copy(r, a); VERIF_CANARY(); }
void h_hwloc_bitmap_from_ulong(void) { VERIF_GHOSTS(); struct hwloc_bitmap_s *s; unsigned long m; hwloc_bitmap_from_ulong(s, m); VERIF_CANARY(); }
void h_hwloc_bitmap_from_ith_ulong(void) { VERIF_GHOSTS(); struct hwloc_bitmap_s *s; unsigned i; unsigned long m; hwloc_bitmap_from_ith_ulong(s, i, m); VERIF_CANARY(); }
void h_hwloc_bitmap_from_ulongs(void) { VERIF_GHOSTS(); struct hwloc_bitmap_s *s; unsigned n; unsigned long *m; hwloc_bitmap_from_ulongs(s, n, m); VERIF_CANARY(); }
void h_hwloc_bitmap_to_ulong(void) { VERIF_GHOSTS(); struct hwloc_bitmap_s *s; hwloc_bitmap_to_ulong(s); VERIF_CANARY(); }
void h_hwloc_bitmap_to_ith_ulong(void) { VERIF_GHOSTS(); struct hwloc_bitmap_s *s; unsigned i; hwloc_bitmap_to_ith_ulong(s, i); VERIF_CANARY(); }
void h_hwloc_bitmap_to_ulongs(void) { VERIF_GHOSTS(); struct hwloc_bitmap_s *s; unsigned n; unsigned long *m; hwloc_bitmap_to_ulongs(s, n, m); VERIF_CANARY(); }
void h_hwloc_bitmap_nr_ulongs(void) { VERIF_GHOSTS(); struct hwloc_bitmap_s *s; hwloc_bitmap_nr_ulongs(s); VERIF_CANARY(); }
void h_hwloc_bitmap_only(void) { VERIF_GHOSTS(); struct hwloc_bitmap_s *s; unsigned c; hwloc_bitmap_only(s, c); VERIF_CANARY(); }
void h_hwloc_bitmap_allbut(void) { VERIF_GHOSTS(); struct hwloc_bitmap_s *s; unsigned c; hwloc_bitmap_allbut(s, c); VERIF_CANARY(); }
void h_hwloc_bitmap_clr(void) { VERIF_GHOSTS(); struct hwloc_bitmap_s *s; unsigned c; hwloc_bitmap_clr(s, c); VERIF_CANARY(); }
void h_hwloc_bitmap_set_ith_ulong(void) { VERIF_GHOSTS(); struct hwloc_bitmap_s *s; unsigned i; unsigned long m; hwloc_bitmap_set_ith_ulong(s, i, m); VERIF_CANARY(); }
void h_hwloc_bitmap_set_range(void) { VERIF_GHOSTS(); struct hwloc_bitmap_s *s; unsigned b; int e; hwloc_bitmap_set_range(s, b, e); VERIF_CANARY(); }
void h_hwloc_bitmap_clr_range(void) { VERIF_GHOSTS(); struct hwloc_bitmap_s *s; unsigned b; int e; hwloc_bitmap_clr_range(s, b, e); VERIF_CANARY(); }
void h_hwloc_bitmap_isset(void) { VERIF_GHOSTS(); struct hwloc_bitmap_s *s; unsigned c; hwloc_bitmap_isset(s, c); VERIF_CANARY(); }
void h_hwloc_bitmap_isfull(void) { VERIF_GHOSTS(); struct hwloc_bitmap_s *s; hwloc_bitmap_isfull(s); VERIF_CANARY(); }
void h_hwloc_bitmap_isequal(void) { VERIF_GHOSTS(); struct hwloc_bitmap_s *a, *b; hwloc_bitmap_isequal(a, b); VERIF_CANARY(); }
void h_hwloc_bitmap_intersects(void) { VERIF_GHOSTS(); struct hwloc_bitmap_s *a, *b; hwloc_bitmap_intersects(a, b); VERIF_CANARY(); }
void h_hwloc_bitmap_isincluded(void) { VERIF_GHOSTS(); struct hwloc_bitmap_s *a, *b; hwloc_bitmap_isincluded(a, b); VERIF_CANARY(); }
void h_hwloc_bitmap_first_unset(void) { VERIF_GHOSTS(); struct hwloc_bitmap_s *s; hwloc_bitmap_first_unset(s); VERIF_CANARY(); }
void h_hwloc_bitmap_last(void) { VERIF_GHOSTS(); struct hwloc_bitmap_s *s; hwloc_bitmap_last(s); VERIF_CANARY(); }
void h_hwloc_bitmap_last_unset(void) { VERIF_GHOSTS(); struct hwloc_bitmap_s *s; hwloc_bitmap_last_unset(s); VERIF_CANARY(); }
void h_hwloc_bitmap_next(void) { VERIF_GHOSTS(); struct hwloc_bitmap_s *s; int p; hwloc_bitmap_next(s, p); VERIF_CANARY(); }
void h_hwloc_bitmap_next_unset(void) { VERIF_GHOSTS(); struct hwloc_bitmap_s *s; int p; hwloc_bitmap_next_unset(s, p); VERIF_CANARY(); }
void h_hwloc_bitmap_singlify(void) { VERIF_GHOSTS(); struct hwloc_bitmap_s *s; hwloc_bitmap_singlify(s); VERIF_CANARY(); }
void h_hwloc_bitmap_weight(void) { VERIF_GHOSTS(); struct hwloc_bitmap_s *s; hwloc_bitmap_weight(s); VERIF_CANARY(); }
void h_hwloc_bitmap_compare(void) { VERIF_GHOSTS(); struct hwloc_bitmap_s *a, *b; hwloc_bitmap_compare(a, b); VERIF_CANARY(); }
void h_hwloc_bitmap_alloc(void) { VERIF_GHOSTS(); hwloc_bitmap_alloc(); VERIF_CANARY(); }
void h_hwloc_bitmap_alloc_full(void) { VERIF_GHOSTS(); hwloc_bitmap_alloc_full(); VERIF_CANARY(); }
void h_hwloc_bitmap_dup(void) { VERIF_GHOSTS(); struct hwloc_bitmap_s *s; hwloc_bitmap_dup(s); VERIF_CANARY(); }
void h_hwloc_bitmap_free(void) { VERIF_GHOSTS(); struct hwloc_bitmap_s *s; hwloc_bitmap_free(s); VERIF_CANARY(); }
void h_hwloc_bitmap_free_null(void) { VERIF_GHOSTS(); hwloc_bitmap_free((struct hwloc_bitmap_s *)0); VERIF_CANARY(); }

/* quantified-hypothesis contracts (bitmap.quant.h) */
void hq_hwloc_bitmap_iszero(void) { VERIF_GHOSTS(); struct hwloc_bitmap_s *s; hwloc_bitmap_iszero(s); VERIF_CANARY(); }
void hq_hwloc_bitmap_isfull(void) { VERIF_GHOSTS(); struct hwloc_bitmap_s *s; hwloc_bitmap_isfull(s); VERIF_CANARY(); }
void hq_hwloc_bitmap_isequal(void) { VERIF_GHOSTS(); struct hwloc_bitmap_s *a, *b; hwloc_bitmap_isequal(a, b); VERIF_CANARY(); }
void hq_hwloc_bitmap_intersects(void) { VERIF_GHOSTS(); struct hwloc_bitmap_s *a, *b; hwloc_bitmap_intersects(a, b); VERIF_CANARY(); }
void hq_hwloc_bitmap_isincluded(void) { VERIF_GHOSTS(); struct hwloc_bitmap_s *a, *b; hwloc_bitmap_isincluded(a, b); VERIF_CANARY(); }
void hq_hwloc_bitmap_compare(void) { VERIF_GHOSTS(); struct hwloc_bitmap_s *a, *b; hwloc_bitmap_compare(a, b); VERIF_CANARY(); }
void hq_hwloc_bitmap_compare_first(void) { VERIF_GHOSTS(); struct hwloc_bitmap_s *a, *b; hwloc_bitmap_compare_first(a, b); VERIF_CANARY(); }
void hq_hwloc_bitmap_singlify(void) { VERIF_GHOSTS(); struct hwloc_bitmap_s *s; hwloc_bitmap_singlify(s); VERIF_CANARY(); }
void h_hwloc_bitmap_compare_inclusion(void) { VERIF_GHOSTS(); struct hwloc_bitmap_s *a, *b; hwloc_bitmap_compare_inclusion(a, b); VERIF_CANARY(); }
void hq_hwloc_bitmap_compare_inclusion(void) { VERIF_GHOSTS(); struct hwloc_bitmap_s *a, *b; hwloc_bitmap_compare_inclusion(a, b); VERIF_CANARY(); }
void hq_hwloc_bitmap_weight(void) { VERIF_GHOSTS(); struct hwloc_bitmap_s *s; hwloc_bitmap_weight(s); VERIF_CANARY(); }

/* ---- plain (loop-free, full-domain) harnesses for the word-level helpers of include/private/misc.h ---- */
void hp_hwloc_flsl(void)
{
  unsigned long x = nondet_ulong();
  int r = hwloc_flsl(x);                       /* = hwloc_flsl_manual in this configuration */
  __CPROVER_assert((r == 0) == (x == 0), "flsl: 0 iff no bit set");
  __CPROVER_assert(r >= 0 && r <= 64, "flsl: range");
  __CPROVER_assert(x == 0 || (x >> (r - 1)) == 1UL, "flsl: r-1 is the highest set bit");
  VERIF_CANARY();
}
void hp_hwloc_ffsl(void)
{
  unsigned long x = nondet_ulong();
  int r = hwloc_ffsl(x);                       /* = __builtin_ffsl in this configuration */
  __CPROVER_assert((r == 0) == (x == 0), "ffsl: 0 iff no bit set");
  __CPROVER_assert(r >= 0 && r <= 64, "ffsl: range");
  __CPROVER_assert(x == 0 || (((x >> (r - 1)) & 1UL) == 1UL && (x & ((1UL << (r - 1)) - 1UL)) == 0UL), "ffsl: r-1 is the lowest set bit");
  VERIF_CANARY();
}
void hp_hwloc_weight_long(void)
{
  unsigned long x = nondet_ulong();
  int r = hwloc_weight_long(x), n = 0;
  unsigned b;
  for (b = 0; b < 64; b++) n += (int)((x >> b) & 1UL);
  __CPROVER_assert(r == n, "weight_long: number of set bits");
  VERIF_CANARY();
}
void hq_hwloc_bitmap_list_sscanf(void) { VERIF_GHOSTS(); struct hwloc_bitmap_s *s; const char *str; hwloc_bitmap_list_sscanf(s, str); VERIF_CANARY(); }
