/* Plain harnesses for cpukinds.c (C15): the partition invariant of hwloc_internal_cpukinds_register and the
 * classification of hwloc_cpukinds_get_by_cpuset, for every state with <= 3 existing kinds (pairwise disjoint,
 * non-empty: the invariant itself) over the 8-PU universe of cpukinds.model.h, every new cpuset, every forced
 * efficiency and flag word.  Bounded in the number of kinds (loops unwound with unwinding assertions). */
#define MAXKINDS 3
#ifndef REG_ALLOC
#define REG_ALLOC 8
#endif
static struct hwloc_topology topo;
static struct hwloc_internal_cpukind_s *kinds0;
static unsigned char old_union;
/* info pairs come from a pool of strings with pairwise distinct contents (so that equal content <=> same pool string) */
#define MAXINFO 2
static char pool_n[3][2] = { "a", "b", "c" }, pool_v[2][2] = { "1", "2" };
static struct hwloc_infos_s old_infos[MAXKINDS]; static struct hwloc_info_s old_pairs[MAXKINDS][MAXINFO];
static unsigned char old_bits[MAXKINDS]; static hwloc_bitmap_t old_set[MAXKINDS]; static int ni_used;
#ifdef CK_NO_INFOS
#define CK_INFOS 0
#else
#define CK_INFOS 1
#endif
static void mk_infos(struct hwloc_infos_s *infos, int nodup)
{
  /* <= 2 pairs: the first is ("a", "1"|"2"), the second ("a"|"b", "1"|"2") -- every duplicate / same-name / different-name
   * relation between two pairs occurs; the pointers are two-way choices so that the string compares stay cheap */
  unsigned c = nondet_unsigned();
  infos->count = 0; infos->array = 0; infos->allocated = 0;
  if (!CK_INFOS) return;
  __CPROVER_assume(c <= MAXINFO);
  if (c >= 1) hwloc__add_info(infos, pool_n[0], nondet_bool() ? pool_v[0] : pool_v[1]);
  if (c >= 2) hwloc__add_info(infos, nondet_bool() ? pool_n[0] : pool_n[1], nondet_bool() ? pool_v[0] : pool_v[1]);
  if (nodup && c == 2) __CPROVER_assume(infos->array[0].name != infos->array[1].name || infos->array[0].value != infos->array[1].value);   /* invariant: no exact duplicates */
}
static int has_pair(const struct hwloc_info_s *arr, unsigned n, const char *name, const char *value)
{
  unsigned e; int r = 0;
  for (e = 0; e < INFOCAP; e++) if (e < n && arr[e].name == name && arr[e].value == value) r = 1;
  return r;
}

#ifndef FIXED_NR
#define FIXED_NR nondet_unsigned()
#endif
static void setup_kinds(unsigned alloc)
{
  unsigned i, n = FIXED_NR;      /* a concrete number of kinds per job keeps allocation sizes concrete */
  __CPROVER_assume(n <= MAXKINDS);
  verif_pool_used = 0;
  topo.nr_cpukinds = n;
  topo.nr_cpukinds_allocated = alloc;
  kinds0 = alloc ? malloc(alloc * sizeof(*kinds0)) : (struct hwloc_internal_cpukind_s *)0;
  __CPROVER_assume(!alloc || kinds0 != 0);
  topo.cpukinds = kinds0;
  old_union = 0;
  for (i = 0; i < MAXKINDS; i++) {
    if (i < n) {
      hwloc_bitmap_t s = hwloc_bitmap_alloc();
      s->bits = (unsigned char)nondet_char();
      __CPROVER_assume(s->bits != 0 && (s->bits & old_union) == 0);      /* the invariant: non-empty, disjoint */
      old_union |= s->bits;
      kinds0[i].cpuset = s; kinds0[i].infos.count = 0; kinds0[i].infos.array = 0; kinds0[i].infos.allocated = 0;
      kinds0[i].efficiency = nondet_int(); kinds0[i].forced_efficiency = nondet_int(); kinds0[i].ranking_value = 0;
      mk_infos(&kinds0[i].infos, 1);
      old_infos[i] = kinds0[i].infos; old_bits[i] = s->bits; old_set[i] = s;
      for (unsigned e = 0; e < MAXINFO; e++) if (e < kinds0[i].infos.count) old_pairs[i][e] = kinds0[i].infos.array[e];
    }
  }
  /* the slots beyond nr_cpukinds are zeroed: register() establishes this (realloc + memset) and relies on it when it
   * appends infos to a fresh slot -- part of the representation invariant of the kinds array */
  for (i = 0; i < REG_ALLOC; i++) if (i >= n && i < alloc) { kinds0[i].cpuset = 0; kinds0[i].efficiency = 0; kinds0[i].forced_efficiency = 0; kinds0[i].ranking_value = 0; kinds0[i].infos.array = 0; kinds0[i].infos.count = 0; kinds0[i].infos.allocated = 0; }
}
/* every slot beyond nr_cpukinds is clean (no stale infos) */
static void check_clean_slots(void)
{
  unsigned k = nondet_unsigned();
  if (k >= topo.nr_cpukinds && k < topo.nr_cpukinds_allocated)
    __CPROVER_assert(topo.cpukinds[k].infos.count == 0 && topo.cpukinds[k].infos.array == 0, "representation invariant: unused slots of the kinds array carry no (stale) infos");
}
static void check_partition(unsigned char expect_union)
{
  unsigned i = nondet_unsigned(), j = nondet_unsigned(); unsigned char u = 0; unsigned k;
  __CPROVER_assert(topo.nr_cpukinds <= topo.nr_cpukinds_allocated, "kinds fit in the allocated array");
  if (i < topo.nr_cpukinds) {
    __CPROVER_assert(topo.cpukinds[i].cpuset != 0 && topo.cpukinds[i].cpuset->live, "every kind has a live cpuset");
    __CPROVER_assert(topo.cpukinds[i].cpuset->bits != 0, "every kind is non-empty");
    if (j < topo.nr_cpukinds && j != i) {
      __CPROVER_assert((topo.cpukinds[i].cpuset->bits & topo.cpukinds[j].cpuset->bits) == 0, "kinds are pairwise disjoint");
      __CPROVER_assert(topo.cpukinds[i].cpuset != topo.cpukinds[j].cpuset, "kinds do not share a cpuset object");
    }
  }
  for (k = 0; k < 2 * MAXKINDS + 1; k++) if (k < topo.nr_cpukinds) u |= topo.cpukinds[k].cpuset->bits;
  __CPROVER_assert(u == expect_union, "the union of the kinds is the union of everything registered");
}

/* info accumulation: a kind carries exactly the pairs of the old kind it was split from plus, when its PUs are covered by
 * the new registration, the pairs given with it -- without exact duplicates */
static void check_infos(unsigned char newbits, const struct hwloc_infos_s *ni, unsigned oldnr)
{
  unsigned i = nondet_unsigned(), j, e = nondet_unsigned(), e2 = nondet_unsigned(), src = MAXKINDS; unsigned char B; int covered;
  const struct hwloc_infos_s *ki;
  if (!CK_INFOS || i >= topo.nr_cpukinds) return;
  B = topo.cpukinds[i].cpuset->bits; ki = &topo.cpukinds[i].infos; covered = (B & ~newbits) == 0;
  for (j = 0; j < MAXKINDS; j++) if (j < oldnr && (B & ~old_bits[j]) == 0) src = j;
  __CPROVER_assert(ki->count <= INFOCAP, "infos: count within capacity");
  if (src < MAXKINDS && e < old_infos[src].count)
    __CPROVER_assert(has_pair(ki->array, ki->count, old_pairs[src][e].name, old_pairs[src][e].value), "infos: a kind keeps every pair of the kind it comes from");
  if (covered && ni_used && e < ni->count)
    __CPROVER_assert(has_pair(ki->array, ki->count, ni->array[e].name, ni->array[e].value), "infos: a kind covered by the new registration gets every pair given with it");
  if (e < ki->count) {
    int from_old = src < MAXKINDS && has_pair(old_pairs[src], old_infos[src].count, ki->array[e].name, ki->array[e].value);
    int from_new = covered && ni_used && has_pair(ni->array, ni->count, ki->array[e].name, ki->array[e].value);
    __CPROVER_assert(from_old || from_new, "infos: every pair of a kind comes from its old kind or from a registration that covers it");
    if (e2 < ki->count && e2 != e) __CPROVER_assert(ki->array[e].name != ki->array[e2].name || ki->array[e].value != ki->array[e2].value, "infos: no exact duplicates");
  }
}

void hp_hwloc_internal_cpukinds_register(void)
{
  hwloc_bitmap_t cs; unsigned char newbits; int eff = nondet_int(), r; unsigned long flags = nondet_ulong(); unsigned alloc = nondet_unsigned();
  unsigned oldnr; struct hwloc_infos_s newinfos;
  alloc = REG_ALLOC;
  setup_kinds(alloc);
  __CPROVER_assume(alloc >= topo.nr_cpukinds);
  oldnr = topo.nr_cpukinds;
  cs = hwloc_bitmap_alloc(); cs->bits = (unsigned char)nondet_char(); newbits = cs->bits;
  errno = 0;
  mk_infos(&newinfos, 0);
  ni_used = nondet_bool();
  r = hwloc_internal_cpukinds_register(&topo, cs, eff, ni_used ? &newinfos : (const struct hwloc_infos_s *)0, flags);
  if (newbits == 0 || (flags & ~(unsigned long)HWLOC_CPUKINDS_REGISTER_FLAG_OVERWRITE_FORCED_EFFICIENCY)) {
    __CPROVER_assert(r == -1 && errno == EINVAL, "empty cpuset or unknown flags: -1/EINVAL");
    __CPROVER_assert(topo.nr_cpukinds == oldnr, "rejected registration leaves the kinds alone");
    check_partition(old_union);
  } else if (r == 0) {
    check_partition((unsigned char)(old_union | newbits));
    __CPROVER_assert(topo.nr_cpukinds >= oldnr && topo.nr_cpukinds <= 2 * oldnr + 1, "at most 2N+1 kinds");
    check_clean_slots();
    check_infos(newbits, &newinfos, oldnr);
  } else {
    __CPROVER_assert(r == -1, "returns 0 or -1");
    check_partition(old_union);              /* allocation failure: nothing registered */
  }
  VERIF_CANARY();
}

void hp_hwloc_cpukinds_get_by_cpuset(void)
{
  struct hwloc_bitmap_s q; unsigned long flags = nondet_ulong(); int r, useNULL = nondet_bool(); unsigned i = nondet_unsigned();
  setup_kinds(8);
  q.live = 1; q.bits = (unsigned char)nondet_char();
  errno = 0;
  r = hwloc_cpukinds_get_by_cpuset(&topo, useNULL ? (hwloc_const_bitmap_t)0 : &q, flags);
  if (flags || useNULL || q.bits == 0) { __CPROVER_assert(r == -1 && errno == EINVAL, "flags, NULL or empty set: -1/EINVAL"); }
  else if (r >= 0) {
    __CPROVER_assert((unsigned)r < topo.nr_cpukinds && (q.bits & ~topo.cpukinds[r].cpuset->bits) == 0, "returns the index of a kind that contains the whole set");
  } else {
    __CPROVER_assert(r == -1 && (errno == EXDEV || errno == ENOENT), "otherwise -1 with EXDEV or ENOENT");
    if (i < topo.nr_cpukinds) __CPROVER_assert((q.bits & ~topo.cpukinds[i].cpuset->bits) != 0, "-1 only when no kind contains the whole set");
    __CPROVER_assert((errno == ENOENT) == ((q.bits & old_union) == 0), "ENOENT iff the set touches no kind, EXDEV iff it straddles kinds or is partially covered");
  }
  VERIF_CANARY();
}

void hp_hwloc_cpukinds_register_rejects(void)
{
  struct hwloc_bitmap_s q; unsigned long flags = nondet_ulong(); int r, useNULL = nondet_bool(); unsigned oldnr;
  setup_kinds(8);
  q.live = 1; q.bits = (unsigned char)nondet_char();
  __CPROVER_assume(flags != 0 || useNULL || q.bits == 0);      /* the rejection clause only: success runs the ranking code (not claimed) */
  oldnr = topo.nr_cpukinds; errno = 0;
  r = hwloc_cpukinds_register(&topo, useNULL ? (hwloc_cpuset_t)0 : &q, nondet_int(), (struct hwloc_infos_s *)0, flags);
  __CPROVER_assert(r == -1 && errno == EINVAL, "non-zero flags, NULL or empty cpuset: -1/EINVAL");
  __CPROVER_assert(topo.nr_cpukinds == oldnr, "nothing registered");
  check_partition(old_union);
  VERIF_CANARY();
}

/* restrict: every kind is intersected with the root cpuset, emptied kinds are removed (cpuset released), survivors keep
 * their order, cpuset object and infos; the kinds array stays well formed (clean unused slots) so that a later
 * register() works on it.  The ranking that follows a removal only writes efficiencies (body removed, see job note). */
void hp_hwloc_internal_cpukinds_restrict(void)
{
  struct hwloc_bitmap_s rootset; unsigned i = nondet_unsigned(), k, ns = 0, ni = 0;
  setup_kinds(REG_ALLOC);
  rootset.live = 1; rootset.bits = (unsigned char)nondet_char(); verif_root.cpuset = &rootset;
  for (k = 0; k < MAXKINDS; k++) if (k < topo.nr_cpukinds && (old_bits[k] & rootset.bits)) { if (k < i) ni++; ns++; }
  { unsigned oldnr = topo.nr_cpukinds;
  hwloc_internal_cpukinds_restrict(&topo);
  __CPROVER_assert(topo.nr_cpukinds == ns, "restrict: exactly the kinds that keep a PU survive");
  if (i < oldnr) {
    if (old_bits[i] & rootset.bits) {
      __CPROVER_assert(topo.cpukinds[ni].cpuset == old_set[i] && old_set[i]->live && old_set[i]->bits == (unsigned char)(old_bits[i] & rootset.bits), "restrict: a surviving kind keeps its place in the order and is intersected with the topology cpuset");
      __CPROVER_assert(topo.cpukinds[ni].infos.array == old_infos[i].array && topo.cpukinds[ni].infos.count == old_infos[i].count, "restrict: a surviving kind keeps its infos");
    } else __CPROVER_assert(!old_set[i]->live, "restrict: the cpuset of a removed kind is released");
  } }
  check_partition((unsigned char)(old_union & rootset.bits));
  check_clean_slots();
  VERIF_CANARY();
}
