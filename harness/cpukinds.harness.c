/* Plain harnesses for cpukinds.c (C15): the partition invariant of hwloc_internal_cpukinds_register and the
 * classification of hwloc_cpukinds_get_by_cpuset, for every state with <= 3 existing kinds (pairwise disjoint,
 * non-empty: the invariant itself) over the 8-PU universe of cpukinds.model.h, every new cpuset, every forced
 * efficiency and flag word.  Bounded in the number of kinds (loops unwound with unwinding assertions). */
#define MAXKINDS 3
#ifndef REG_ALLOC
#define REG_ALLOC 8
#endif
static struct hwloc_topology topo;
static struct hwloc_internal_cpukind_s *kinds0;
static unsigned char old_union;

#ifndef FIXED_NR
#define FIXED_NR nondet_unsigned()
#endif
static void setup_kinds(unsigned alloc)
{
  unsigned i, n = FIXED_NR;      /* a concrete number of kinds per job keeps allocation sizes concrete */
  __CPROVER_assume(n <= MAXKINDS);
  verif_pool_used = 0;
  topo.nr_cpukinds = n;
  topo.nr_cpukinds_allocated = alloc;
  kinds0 = alloc ? malloc(alloc * sizeof(*kinds0)) : (struct hwloc_internal_cpukind_s *)0;
  __CPROVER_assume(!alloc || kinds0 != 0);
  topo.cpukinds = kinds0;
  old_union = 0;
  for (i = 0; i < MAXKINDS; i++) {
    if (i < n) {
      hwloc_bitmap_t s = hwloc_bitmap_alloc();
      s->bits = (unsigned char)nondet_char();
      __CPROVER_assume(s->bits != 0 && (s->bits & old_union) == 0);      /* the invariant: non-empty, disjoint */
      old_union |= s->bits;
      kinds0[i].cpuset = s; kinds0[i].infos.count = 0; kinds0[i].infos.array = 0; kinds0[i].infos.allocated = 0;
      kinds0[i].efficiency = nondet_int(); kinds0[i].forced_efficiency = nondet_int(); kinds0[i].ranking_value = 0;
    }
  }
}
static void check_partition(unsigned char expect_union)
{
  unsigned i = nondet_unsigned(), j = nondet_unsigned(); unsigned char u = 0; unsigned k;
  __CPROVER_assert(topo.nr_cpukinds <= topo.nr_cpukinds_allocated, "kinds fit in the allocated array");
  if (i < topo.nr_cpukinds) {
    __CPROVER_assert(topo.cpukinds[i].cpuset != 0 && topo.cpukinds[i].cpuset->live, "every kind has a live cpuset");
    __CPROVER_assert(topo.cpukinds[i].cpuset->bits != 0, "every kind is non-empty");
    if (j < topo.nr_cpukinds && j != i) {
      __CPROVER_assert((topo.cpukinds[i].cpuset->bits & topo.cpukinds[j].cpuset->bits) == 0, "kinds are pairwise disjoint");
      __CPROVER_assert(topo.cpukinds[i].cpuset != topo.cpukinds[j].cpuset, "kinds do not share a cpuset object");
    }
  }
  for (k = 0; k < 2 * MAXKINDS + 1; k++) if (k < topo.nr_cpukinds) u |= topo.cpukinds[k].cpuset->bits;
  __CPROVER_assert(u == expect_union, "the union of the kinds is the union of everything registered");
}

void hp_hwloc_internal_cpukinds_register(void)
{
  hwloc_bitmap_t cs; unsigned char newbits; int eff = nondet_int(), r; unsigned long flags = nondet_ulong(); unsigned alloc = nondet_unsigned();
  unsigned oldnr;
  alloc = REG_ALLOC;
  setup_kinds(alloc);
  __CPROVER_assume(alloc >= topo.nr_cpukinds);
  oldnr = topo.nr_cpukinds;
  cs = hwloc_bitmap_alloc(); cs->bits = (unsigned char)nondet_char(); newbits = cs->bits;
  errno = 0;
  r = hwloc_internal_cpukinds_register(&topo, cs, eff, (const struct hwloc_infos_s *)0, flags);
  if (newbits == 0 || (flags & ~(unsigned long)HWLOC_CPUKINDS_REGISTER_FLAG_OVERWRITE_FORCED_EFFICIENCY)) {
    __CPROVER_assert(r == -1 && errno == EINVAL, "empty cpuset or unknown flags: -1/EINVAL");
    __CPROVER_assert(topo.nr_cpukinds == oldnr, "rejected registration leaves the kinds alone");
    check_partition(old_union);
  } else if (r == 0) {
    check_partition((unsigned char)(old_union | newbits));
    __CPROVER_assert(topo.nr_cpukinds >= oldnr && topo.nr_cpukinds <= 2 * oldnr + 1, "at most 2N+1 kinds");
  } else {
    __CPROVER_assert(r == -1, "returns 0 or -1");
    check_partition(old_union);              /* allocation failure: nothing registered */
  }
  VERIF_CANARY();
}

void hp_hwloc_cpukinds_get_by_cpuset(void)
{
  struct hwloc_bitmap_s q; unsigned long flags = nondet_ulong(); int r, useNULL = nondet_bool(); unsigned i = nondet_unsigned();
  setup_kinds(8);
  q.live = 1; q.bits = (unsigned char)nondet_char();
  errno = 0;
  r = hwloc_cpukinds_get_by_cpuset(&topo, useNULL ? (hwloc_const_bitmap_t)0 : &q, flags);
  if (flags || useNULL || q.bits == 0) { __CPROVER_assert(r == -1 && errno == EINVAL, "flags, NULL or empty set: -1/EINVAL"); }
  else if (r >= 0) {
    __CPROVER_assert((unsigned)r < topo.nr_cpukinds && (q.bits & ~topo.cpukinds[r].cpuset->bits) == 0, "returns the index of a kind that contains the whole set");
  } else {
    __CPROVER_assert(r == -1 && (errno == EXDEV || errno == ENOENT), "otherwise -1 with EXDEV or ENOENT");
    if (i < topo.nr_cpukinds) __CPROVER_assert((q.bits & ~topo.cpukinds[i].cpuset->bits) != 0, "-1 only when no kind contains the whole set");
    __CPROVER_assert((errno == ENOENT) == ((q.bits & old_union) == 0), "ENOENT iff the set touches no kind, EXDEV iff it straddles kinds or is partially covered");
  }
  VERIF_CANARY();
}

void hp_hwloc_cpukinds_register_rejects(void)
{
  struct hwloc_bitmap_s q; unsigned long flags = nondet_ulong(); int r, useNULL = nondet_bool(); unsigned oldnr;
  setup_kinds(8);
  q.live = 1; q.bits = (unsigned char)nondet_char();
  __CPROVER_assume(flags != 0 || useNULL || q.bits == 0);      /* the rejection clause only: success runs the ranking code (not claimed) */
  oldnr = topo.nr_cpukinds; errno = 0;
  r = hwloc_cpukinds_register(&topo, useNULL ? (hwloc_cpuset_t)0 : &q, nondet_int(), (struct hwloc_infos_s *)0, flags);
  __CPROVER_assert(r == -1 && errno == EINVAL, "non-zero flags, NULL or empty cpuset: -1/EINVAL");
  __CPROVER_assert(topo.nr_cpukinds == oldnr, "nothing registered");
  check_partition(old_union);
  VERIF_CANARY();
}
