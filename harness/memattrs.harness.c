/* Plain harnesses for the selection logic of memattrs.c (C14). */
#ifndef NT
#define NT 4
#endif
#ifndef MA_AFLAGS
#define MA_AFLAGS HWLOC_MEMATTR_FLAG_HIGHER_FIRST
#endif
#ifndef MA_ID
#define MA_ID 0
#endif

/* (1) the update step, loop-free over all values: complete */
void hp_hwloc__update_best_target(void)
{
  struct hwloc_obj a, b; hwloc_obj_t best = nondet_bool() ? &a : (hwloc_obj_t)0, old_best;
  hwloc_uint64_t best_value = nondet_ulong(), old_value, v = nondet_ulong(); int found = nondet_bool(), old_found, hi = nondet_int();
  old_best = best; old_value = best_value; old_found = found;
  hwloc__update_best_target(&best, &best_value, &found, &b, v, hi);
  __CPROVER_assert(found == 1, "something is found afterwards");
  if (!old_found) __CPROVER_assert(best == &b && best_value == v, "first candidate is taken");
  else if (hi ? v > old_value : v < old_value) __CPROVER_assert(best == &b && best_value == v, "strictly better candidate replaces the best");
  else __CPROVER_assert(best == old_best && best_value == old_value, "ties and worse candidates leave the best unchanged");
  VERIF_CANARY();
}
void hp_hwloc__update_best_initiator(void)
{
  struct hwloc_internal_location_s best, cand, old_best; hwloc_uint64_t best_value = nondet_ulong(), old_value, v = nondet_ulong();
  int found = nondet_bool(), old_found, hi = nondet_int();
  best.type = (enum hwloc_location_type_e)nondet_int(); best.location.object.gp_index = nondet_ulong(); best.location.object.type = (hwloc_obj_type_t)nondet_int(); best.location.object.obj = 0;
  cand.type = (enum hwloc_location_type_e)nondet_int(); cand.location.object.gp_index = nondet_ulong(); cand.location.object.type = (hwloc_obj_type_t)nondet_int(); cand.location.object.obj = 0;
  old_best = best; old_value = best_value; old_found = found;
  hwloc__update_best_initiator(&best, &best_value, &found, &cand, v, hi);
  __CPROVER_assert(found == 1, "something is found afterwards");
  if (!old_found || (hi ? v > old_value : v < old_value))
    __CPROVER_assert(best.type == cand.type && best.location.object.gp_index == cand.location.object.gp_index && best_value == v, "first or strictly better candidate is taken");
  else __CPROVER_assert(best.type == old_best.type && best.location.object.gp_index == old_best.location.object.gp_index && best_value == old_value, "ties and worse candidates leave the best unchanged");
  VERIF_CANARY();
}

/* (2) best target over <= NT stored targets of an attribute without initiators: optimal, first on ties, ENOENT when none */
static struct hwloc_topology topo;
static struct hwloc_internal_memattr_s attrs[1];
static struct hwloc_internal_memattr_target_s tg[NT];
static struct hwloc_obj tobj[NT];
void hp_hwloc_memattr_get_best_target(void)
{
  unsigned n = nondet_unsigned(), k, j = nondet_unsigned(); unsigned long flags = nondet_ulong(), aflags = nondet_ulong(); hwloc_memattr_id_t id = nondet_unsigned();
  hwloc_obj_t best = (hwloc_obj_t)0; hwloc_uint64_t value = 0; int r, hi;
  __CPROVER_assume(n <= NT);
  /* attributes without initiators; concrete flag words keep the initiator-matching code out of the run */
  /* concrete flag word and id per job (-DMA_AFLAGS, -DMA_ID): keeps the convenience / refresh / initiator-matching code,
   * which is behind tests of these values, out of the run */
  aflags = MA_AFLAGS; id = MA_ID;
  topo.nr_memattrs = 1; topo.memattrs = attrs;
  attrs[0].name = (char *)"x"; attrs[0].flags = aflags; attrs[0].iflags = HWLOC_IMATTR_FLAG_CACHE_VALID; attrs[0].nr_targets = n; attrs[0].targets = tg;
  for (k = 0; k < NT; k++) { tg[k].obj = &tobj[k]; tg[k].noinitiator_value = nondet_ulong(); tg[k].nr_initiators = 0; tg[k].initiators = 0; }
  hi = (aflags & HWLOC_MEMATTR_FLAG_HIGHER_FIRST) != 0;
  errno = 0;
  r = hwloc_memattr_get_best_target(&topo, id, (struct hwloc_location *)0, flags, &best, &value);
  if (flags || id >= 1) __CPROVER_assert(r == -1 && errno == EINVAL, "flags or unknown attribute: -1/EINVAL");
  else if (n == 0) __CPROVER_assert(r == -1 && errno == ENOENT, "no target: -1/ENOENT");
  else {
    __CPROVER_assert(r == 0 && best != 0, "a target is returned");
    if (j < n) __CPROVER_assert(hi ? value >= tg[j].noinitiator_value : value <= tg[j].noinitiator_value, "the returned value is maximal (HIGHER_FIRST) / minimal among all stored targets");
    if (j < n && best == &tobj[j]) {
      unsigned e = nondet_unsigned();
      __CPROVER_assert(value == tg[j].noinitiator_value, "the returned value is the returned target's value");
      if (e < j) __CPROVER_assert(tg[e].noinitiator_value != value, "ties are resolved in favour of the first stored target");
    }
    __CPROVER_assert(best >= &tobj[0] && best <= &tobj[NT - 1], "the returned object is one of the stored targets");
  }
  VERIF_CANARY();
}

/* (3) best initiator of a target over <= NT stored initiators */
static struct hwloc_internal_memattr_initiator_s ini[NT];
void hp_hwloc_memattr_get_best_initiator(void)
{
  unsigned n = nondet_unsigned(), k, j = nondet_unsigned(); unsigned long flags = nondet_ulong(), aflags = nondet_ulong(); hwloc_memattr_id_t id = nondet_unsigned();
  struct hwloc_location best; hwloc_uint64_t value = 0; int r, hi, usenull = nondet_bool();
  __CPROVER_assume(n <= NT);
  aflags = MA_AFLAGS; id = MA_ID;
  topo.nr_memattrs = 1; topo.memattrs = attrs;
  attrs[0].name = (char *)"x"; attrs[0].flags = aflags; attrs[0].iflags = HWLOC_IMATTR_FLAG_CACHE_VALID; attrs[0].nr_targets = 1; attrs[0].targets = tg;
  tobj[0].type = HWLOC_OBJ_NUMANODE; tobj[0].gp_index = 7; tobj[0].os_index = 3;
  tg[0].obj = &tobj[0]; tg[0].type = HWLOC_OBJ_NUMANODE; tg[0].gp_index = 7; tg[0].os_index = 3; tg[0].nr_initiators = n; tg[0].initiators = ini;
  for (k = 0; k < NT; k++) { ini[k].value = nondet_ulong(); ini[k].initiator.type = HWLOC_LOCATION_TYPE_OBJECT; ini[k].initiator.location.object.obj = &tobj[k]; ini[k].initiator.location.object.gp_index = k; ini[k].initiator.location.object.type = HWLOC_OBJ_CORE; }
  hi = (aflags & HWLOC_MEMATTR_FLAG_HIGHER_FIRST) != 0;
  errno = 0;
  r = hwloc_memattr_get_best_initiator(&topo, id, usenull ? (hwloc_obj_t)0 : &tobj[0], flags, &best, &value);
  if (flags || usenull || id >= 1 || !(aflags & HWLOC_MEMATTR_FLAG_NEED_INITIATOR)) __CPROVER_assert(r == -1 && errno == EINVAL, "flags, NULL target, unknown attribute or attribute without initiators: -1/EINVAL");
  else if (n == 0) __CPROVER_assert(r == -1 && errno == ENOENT, "no initiator: -1/ENOENT");
  else {
    __CPROVER_assert(r == 0 && best.type == HWLOC_LOCATION_TYPE_OBJECT, "an initiator is returned");
    if (j < n) __CPROVER_assert(hi ? value >= ini[j].value : value <= ini[j].value, "the returned value is maximal / minimal among all stored initiators of the target");
    if (j < n && best.location.object == &tobj[j]) __CPROVER_assert(value == ini[j].value, "the returned value is the returned initiator's value");
  }
  VERIF_CANARY();
}

/* (4) register: exactly one of HIGHER_FIRST / LOWER_FIRST, unique name */
void hp_hwloc_memattr_register(void)
{
  static char n0[3], n1[3], nn[3]; unsigned long flags = nondet_ulong(); hwloc_memattr_id_t id = 99; int r, usenull = nondet_bool(); unsigned n = nondet_unsigned(), old;
  struct hwloc_internal_memattr_s *arr;
  __CPROVER_assume(n <= 2);
  n0[0] = nondet_char(); n0[1] = nondet_char(); n0[2] = 0; n1[0] = nondet_char(); n1[1] = nondet_char(); n1[2] = 0; nn[0] = nondet_char(); nn[1] = nondet_char(); nn[2] = 0;
  arr = malloc(2 * sizeof(*arr)); __CPROVER_assume(arr != 0);
  arr[0].name = n0; arr[1].name = n1; arr[0].nr_targets = 0; arr[1].nr_targets = 0;
  topo.nr_memattrs = n; topo.memattrs = arr; old = n;
  errno = 0;
  r = hwloc_memattr_register(&topo, usenull ? (const char *)0 : nn, flags, &id);
  {
    int lo = (flags & HWLOC_MEMATTR_FLAG_LOWER_FIRST) != 0, hi = (flags & HWLOC_MEMATTR_FLAG_HIGHER_FIRST) != 0;
    int badflags = (flags & ~(unsigned long)(HWLOC_MEMATTR_FLAG_NEED_INITIATOR | HWLOC_MEMATTR_FLAG_LOWER_FIRST | HWLOC_MEMATTR_FLAG_HIGHER_FIRST)) != 0 || lo == hi;
    int dup = !usenull && ((n >= 1 && !strcmp(nn, n0)) || (n >= 2 && !strcmp(nn, n1)));
    if (badflags || usenull) { __CPROVER_assert(r == -1 && errno == EINVAL && topo.nr_memattrs == old && id == 99, "unknown flags, both or neither of HIGHER/LOWER_FIRST, NULL name: -1/EINVAL, nothing registered"); }
    else if (dup) { __CPROVER_assert(r == -1 && errno == EBUSY && topo.nr_memattrs == old && id == 99, "name already used: -1/EBUSY, nothing registered"); }
    else if (r == 0) { __CPROVER_assert(id == old && topo.nr_memattrs == old + 1 && topo.memattrs[id].flags == flags && !strcmp(topo.memattrs[id].name, nn), "registered with the next id, the flags and a copy of the name"); }
    else __CPROVER_assert(r == -1 && topo.nr_memattrs == old, "allocation failure: -1, nothing registered");
  }
  VERIF_CANARY();
}
