/* Plain, loop-free harnesses for every binding entry point of bind.c (C10).  Symbolic flag word, symbolic
 * policy, every hook pointer independently NULL or a hook stub, every relation between the user's set and
 * the root sets (bind.model.h): loop-free + full domain => a complete proof.
 *
 * A hook stub is the hook's contract in executable form: it records the call (ghost h_*), and returns a
 * nondeterministic value with a nondeterministic errno.  What the OS hook may rely on -- the property --
 * is asserted on the recorded arguments after the entry point returns. */

#define MAXCALLS 3
int h_n, h_id[MAXCALLS], h_ret[MAXCALLS], h_errno[MAXCALLS], h_flags[MAXCALLS], h_policy[MAXCALLS];
const struct hwloc_bitmap_s *h_set[MAXCALLS];
size_t h_len[MAXCALLS];
static char verif_area[8];
static struct hwloc_topology topo;

enum { ID_SET_THISPROC_CPU = 1, ID_GET_THISPROC_CPU, ID_SET_THISTHREAD_CPU, ID_GET_THISTHREAD_CPU, ID_SET_PROC_CPU, ID_GET_PROC_CPU,
       ID_SET_THREAD_CPU, ID_GET_THREAD_CPU, ID_GET_THISPROC_LAST, ID_GET_THISTHREAD_LAST, ID_GET_PROC_LAST,
       ID_SET_THISPROC_MEM, ID_GET_THISPROC_MEM, ID_SET_THISTHREAD_MEM, ID_GET_THISTHREAD_MEM, ID_SET_PROC_MEM, ID_GET_PROC_MEM,
       ID_SET_AREA_MEM, ID_GET_AREA_MEM, ID_GET_AREA_LOC, ID_ALLOC, ID_ALLOC_MEM, ID_FREE_MEM };

static int hook_record(int id, const struct hwloc_bitmap_s *set, int flags, int policy, size_t len)
{
  int r = nondet_int();
  __CPROVER_assert(h_n < MAXCALLS, "at most 3 OS hook calls per entry point");
  if (h_n < MAXCALLS) {
    h_id[h_n] = id; h_set[h_n] = set; h_flags[h_n] = flags; h_policy[h_n] = policy; h_len[h_n] = len;
    errno = nondet_int();
    h_ret[h_n] = r; h_errno[h_n] = errno;
    h_n++;
  }
  return r;
}
static void touch_out(hwloc_bitmap_t set)
{
  if (set == &B_out) out_state = 4;
  else if (set == &B_tmp) { __CPROVER_assert(tmp_live, "get hook writes a live temporary nodeset"); tmp_state = 3; }
  else __CPROVER_assert(0, "get hook receives the user's set or the temporary nodeset");
}

/* hook stubs, one per signature */
#define HOOK_SETCPU(name, id) static int name(hwloc_topology_t t, hwloc_const_cpuset_t s, int f) { (void)t; return hook_record(id, s, f, 0, 0); }
#define HOOK_GETCPU(name, id) static int name(hwloc_topology_t t, hwloc_cpuset_t s, int f) { (void)t; touch_out(s); return hook_record(id, s, f, 0, 0); }
#define HOOK_SETCPU_P(name, id, T) static int name(hwloc_topology_t t, T p, hwloc_const_cpuset_t s, int f) { (void)t; (void)p; return hook_record(id, s, f, 0, 0); }
#define HOOK_GETCPU_P(name, id, T) static int name(hwloc_topology_t t, T p, hwloc_cpuset_t s, int f) { (void)t; (void)p; touch_out(s); return hook_record(id, s, f, 0, 0); }
HOOK_SETCPU(hk_set_thisproc_cpubind, ID_SET_THISPROC_CPU)
HOOK_GETCPU(hk_get_thisproc_cpubind, ID_GET_THISPROC_CPU)
HOOK_SETCPU(hk_set_thisthread_cpubind, ID_SET_THISTHREAD_CPU)
HOOK_GETCPU(hk_get_thisthread_cpubind, ID_GET_THISTHREAD_CPU)
HOOK_SETCPU_P(hk_set_proc_cpubind, ID_SET_PROC_CPU, hwloc_pid_t)
HOOK_GETCPU_P(hk_get_proc_cpubind, ID_GET_PROC_CPU, hwloc_pid_t)
HOOK_SETCPU_P(hk_set_thread_cpubind, ID_SET_THREAD_CPU, hwloc_thread_t)
HOOK_GETCPU_P(hk_get_thread_cpubind, ID_GET_THREAD_CPU, hwloc_thread_t)
HOOK_GETCPU(hk_get_thisproc_last, ID_GET_THISPROC_LAST)
HOOK_GETCPU(hk_get_thisthread_last, ID_GET_THISTHREAD_LAST)
HOOK_GETCPU_P(hk_get_proc_last, ID_GET_PROC_LAST, hwloc_pid_t)
static int hk_set_thisproc_membind(hwloc_topology_t t, hwloc_const_nodeset_t s, hwloc_membind_policy_t p, int f) { (void)t; return hook_record(ID_SET_THISPROC_MEM, s, f, (int)p, 0); }
static int hk_set_thisthread_membind(hwloc_topology_t t, hwloc_const_nodeset_t s, hwloc_membind_policy_t p, int f) { (void)t; return hook_record(ID_SET_THISTHREAD_MEM, s, f, (int)p, 0); }
static int hk_get_thisproc_membind(hwloc_topology_t t, hwloc_nodeset_t s, hwloc_membind_policy_t *p, int f) { (void)t; touch_out(s); *p = (hwloc_membind_policy_t)nondet_int(); return hook_record(ID_GET_THISPROC_MEM, s, f, 0, 0); }
static int hk_get_thisthread_membind(hwloc_topology_t t, hwloc_nodeset_t s, hwloc_membind_policy_t *p, int f) { (void)t; touch_out(s); *p = (hwloc_membind_policy_t)nondet_int(); return hook_record(ID_GET_THISTHREAD_MEM, s, f, 0, 0); }
static int hk_set_proc_membind(hwloc_topology_t t, hwloc_pid_t pid, hwloc_const_nodeset_t s, hwloc_membind_policy_t p, int f) { (void)t; (void)pid; return hook_record(ID_SET_PROC_MEM, s, f, (int)p, 0); }
static int hk_get_proc_membind(hwloc_topology_t t, hwloc_pid_t pid, hwloc_nodeset_t s, hwloc_membind_policy_t *p, int f) { (void)t; (void)pid; touch_out(s); *p = (hwloc_membind_policy_t)nondet_int(); return hook_record(ID_GET_PROC_MEM, s, f, 0, 0); }
static int hk_set_area_membind(hwloc_topology_t t, const void *a, size_t l, hwloc_const_nodeset_t s, hwloc_membind_policy_t p, int f) { (void)t; (void)a; return hook_record(ID_SET_AREA_MEM, s, f, (int)p, l); }
static int hk_get_area_membind(hwloc_topology_t t, const void *a, size_t l, hwloc_nodeset_t s, hwloc_membind_policy_t *p, int f) { (void)t; (void)a; touch_out(s); *p = (hwloc_membind_policy_t)nondet_int(); return hook_record(ID_GET_AREA_MEM, s, f, 0, l); }
static int hk_get_area_memlocation(hwloc_topology_t t, const void *a, size_t l, hwloc_nodeset_t s, int f) { (void)t; (void)a; touch_out(s); return hook_record(ID_GET_AREA_LOC, s, f, 0, l); }
static void *hk_alloc(hwloc_topology_t t, size_t l) { (void)t; hook_record(ID_ALLOC, (const struct hwloc_bitmap_s *)0, 0, 0, l); return malloc(l); }
static void *hk_alloc_membind(hwloc_topology_t t, size_t l, hwloc_const_nodeset_t s, hwloc_membind_policy_t p, int f) { (void)t; hook_record(ID_ALLOC_MEM, s, f, (int)p, l); return malloc(l); }

#define MAYBE(h) (nondet_bool() ? (h) : 0)
static void setup_hooks(void)
{
  struct hwloc_binding_hooks *b = &topo.binding_hooks;
  model_reset();
  h_n = 0;
  errno = nondet_int();
  b->set_thisproc_cpubind = MAYBE(hk_set_thisproc_cpubind); b->get_thisproc_cpubind = MAYBE(hk_get_thisproc_cpubind);
  b->set_thisthread_cpubind = MAYBE(hk_set_thisthread_cpubind); b->get_thisthread_cpubind = MAYBE(hk_get_thisthread_cpubind);
  b->set_proc_cpubind = MAYBE(hk_set_proc_cpubind); b->get_proc_cpubind = MAYBE(hk_get_proc_cpubind);
  b->set_thread_cpubind = MAYBE(hk_set_thread_cpubind); b->get_thread_cpubind = MAYBE(hk_get_thread_cpubind);
  b->get_thisproc_last_cpu_location = MAYBE(hk_get_thisproc_last); b->get_thisthread_last_cpu_location = MAYBE(hk_get_thisthread_last);
  b->get_proc_last_cpu_location = MAYBE(hk_get_proc_last);
  b->set_thisproc_membind = MAYBE(hk_set_thisproc_membind); b->get_thisproc_membind = MAYBE(hk_get_thisproc_membind);
  b->set_thisthread_membind = MAYBE(hk_set_thisthread_membind); b->get_thisthread_membind = MAYBE(hk_get_thisthread_membind);
  b->set_proc_membind = MAYBE(hk_set_proc_membind); b->get_proc_membind = MAYBE(hk_get_proc_membind);
  b->set_area_membind = MAYBE(hk_set_area_membind); b->get_area_membind = MAYBE(hk_get_area_membind);
  b->get_area_memlocation = MAYBE(hk_get_area_memlocation);
  b->alloc = MAYBE(hk_alloc); b->alloc_membind = MAYBE(hk_alloc_membind); b->free_membind = 0;
}

/* ------------------------------------------------------------------ the specification side */
#define CPU_ALL (HWLOC_CPUBIND_PROCESS | HWLOC_CPUBIND_THREAD | HWLOC_CPUBIND_STRICT | HWLOC_CPUBIND_NOMEMBIND)
#define MEM_ALL (HWLOC_MEMBIND_PROCESS | HWLOC_MEMBIND_THREAD | HWLOC_MEMBIND_STRICT | HWLOC_MEMBIND_MIGRATE | HWLOC_MEMBIND_NOCPUBIND | HWLOC_MEMBIND_BYNODESET)

/* the set an OS cpubind hook may be handed: NULL when the user's set is illegal */
static const struct hwloc_bitmap_s *spec_cpuset(void)
{
  if (F_zero_user || !F_user_in_compcpu) return 0;
  return F_topocpu_in_user ? &B_comp_cpu : &B_user;
}
/* the nodeset an OS membind hook may be handed */
static const struct hwloc_bitmap_s *spec_nodeset(int flags)
{
  if (flags & HWLOC_MEMBIND_BYNODESET) {
    if (F_zero_user || !F_user_in_compnode) return 0;
    return F_toponode_in_user ? &B_comp_node : &B_user;
  }
  if (F_zero_user || !F_user_in_compcpu) return 0;
  if (F_topocpu_in_user) return &B_comp_node;
  if (F_zero_conv || !F_conv_in_compnode) return 0;
  return F_toponode_in_conv ? &B_comp_node : &B_tmp;
}
static int spec_policy_ok(int p)
{
  return p == HWLOC_MEMBIND_DEFAULT || p == HWLOC_MEMBIND_FIRSTTOUCH || p == HWLOC_MEMBIND_BIND || p == HWLOC_MEMBIND_INTERLEAVE
      || p == HWLOC_MEMBIND_WEIGHTED_INTERLEAVE || p == HWLOC_MEMBIND_NEXTTOUCH;
}

#define A(c, msg) __CPROVER_assert(c, msg)
#define REJECTED(ret) do { A((ret) == -1, "invalid arguments: returns -1"); A(errno == EINVAL, "invalid arguments: errno is EINVAL"); \
                           A(h_n == 0, "invalid arguments are rejected before touching the OS"); } while (0)
#define NOHOOK(ret) do { A((ret) == -1 && errno == ENOSYS, "no applicable hook: -1/ENOSYS"); A(h_n == 0, "no applicable hook: no OS call"); } while (0)
#define ONE_CALL(ret, id) do { A(h_n == 1 && h_id[0] == (id), "exactly the applicable hook is called"); A((ret) == h_ret[0], "the hook's result is returned"); } while (0)

/* dispatch between the this-process and this-thread hooks (PROCESS / THREAD / neither with ENOSYS fallback) */
static void check_this_dispatch(int ret, int flags, int PROCESS, int THREAD, int have_p, int have_t, int idp, int idt)
{
  if (flags & PROCESS) {
    if (have_p) ONE_CALL(ret, idp); else NOHOOK(ret);
  } else if (flags & THREAD) {
    if (have_t) ONE_CALL(ret, idt); else NOHOOK(ret);
  } else if (have_p) {
    A(h_n >= 1 && h_id[0] == idp, "process hook first when neither PROCESS nor THREAD is given");
    if (h_ret[0] >= 0 || h_errno[0] != ENOSYS) { A(h_n == 1 && ret == h_ret[0], "process hook result returned unless it failed with ENOSYS"); }
    else if (have_t) { A(h_n == 2 && h_id[1] == idt && ret == h_ret[1], "falls back to the thread hook on ENOSYS"); }
    else { A(h_n == 1 && ret == -1 && errno == ENOSYS, "ENOSYS when the fallback hook is missing"); }
  } else if (have_t) ONE_CALL(ret, idt);
  else NOHOOK(ret);
}
/* every recorded OS call got the legal set, the caller's flags and the caller's policy */
static void check_calls(const struct hwloc_bitmap_s *legal, int flags, int policy)
{
  unsigned k = nondet_unsigned();
  if (k < (unsigned)h_n && k < MAXCALLS) {
    A(h_set[k] == legal, "the OS gets the user's set, or the complete set when the user's set covers the topology");
    A(legal != 0, "the OS never gets an empty or out-of-range set");
    A(h_flags[k] == flags, "flags are passed through");
    A(h_policy[k] == policy, "policy is passed through");
  }
}
#define NO_LEAK() A(!tmp_live, "the temporary nodeset is freed on every path")

/* ------------------------------------------------------------------ CPU binding */
void hp_hwloc_set_cpubind(void)
{
  int flags = nondet_int(), ret; setup_hooks();
  ret = hwloc_set_cpubind(&topo, &B_user, flags);
  if ((flags & ~CPU_ALL) || !spec_cpuset()) REJECTED(ret);
  else check_this_dispatch(ret, flags, HWLOC_CPUBIND_PROCESS, HWLOC_CPUBIND_THREAD, topo.binding_hooks.set_thisproc_cpubind != 0,
                           topo.binding_hooks.set_thisthread_cpubind != 0, ID_SET_THISPROC_CPU, ID_SET_THISTHREAD_CPU);
  check_calls(spec_cpuset(), flags, 0);
  VERIF_CANARY();
}
#define SIMPLE_SET_CPU(fn, arg, hook, id) void hp_##fn(void) { int flags = nondet_int(), ret; setup_hooks(); \
  ret = fn(&topo, arg, &B_user, flags); \
  if ((flags & ~CPU_ALL) || !spec_cpuset()) REJECTED(ret); \
  else if (topo.binding_hooks.hook) ONE_CALL(ret, id); else NOHOOK(ret); \
  check_calls(spec_cpuset(), flags, 0); VERIF_CANARY(); }
SIMPLE_SET_CPU(hwloc_set_proc_cpubind, (hwloc_pid_t)nondet_int(), set_proc_cpubind, ID_SET_PROC_CPU)
SIMPLE_SET_CPU(hwloc_set_thread_cpubind, (hwloc_thread_t)nondet_ulong(), set_thread_cpubind, ID_SET_THREAD_CPU)

#define THIS_GET_CPU(fn, hp, ht, idp, idt) void hp_##fn(void) { int flags = nondet_int(), ret; setup_hooks(); \
  ret = fn(&topo, &B_out, flags); \
  if (flags & ~CPU_ALL) { REJECTED(ret); A(out_state == 0, "rejected call leaves the user's set alone"); } \
  else check_this_dispatch(ret, flags, HWLOC_CPUBIND_PROCESS, HWLOC_CPUBIND_THREAD, topo.binding_hooks.hp != 0, topo.binding_hooks.ht != 0, idp, idt); \
  check_calls(&B_out, flags, 0); VERIF_CANARY(); }
THIS_GET_CPU(hwloc_get_cpubind, get_thisproc_cpubind, get_thisthread_cpubind, ID_GET_THISPROC_CPU, ID_GET_THISTHREAD_CPU)
THIS_GET_CPU(hwloc_get_last_cpu_location, get_thisproc_last_cpu_location, get_thisthread_last_cpu_location, ID_GET_THISPROC_LAST, ID_GET_THISTHREAD_LAST)

#define SIMPLE_GET_CPU(fn, arg, hook, id) void hp_##fn(void) { int flags = nondet_int(), ret; setup_hooks(); \
  ret = fn(&topo, arg, &B_out, flags); \
  if (flags & ~CPU_ALL) { REJECTED(ret); A(out_state == 0, "rejected call leaves the user's set alone"); } \
  else if (topo.binding_hooks.hook) ONE_CALL(ret, id); else NOHOOK(ret); \
  check_calls(&B_out, flags, 0); VERIF_CANARY(); }
SIMPLE_GET_CPU(hwloc_get_proc_cpubind, (hwloc_pid_t)nondet_int(), get_proc_cpubind, ID_GET_PROC_CPU)
SIMPLE_GET_CPU(hwloc_get_thread_cpubind, (hwloc_thread_t)nondet_ulong(), get_thread_cpubind, ID_GET_THREAD_CPU)
SIMPLE_GET_CPU(hwloc_get_proc_last_cpu_location, (hwloc_pid_t)nondet_int(), get_proc_last_cpu_location, ID_GET_PROC_LAST)

/* ------------------------------------------------------------------ memory binding */
void hp_hwloc_set_membind(void)
{
  int flags = nondet_int(), policy = nondet_int(), ret; setup_hooks();
  ret = hwloc_set_membind(&topo, &B_user, (hwloc_membind_policy_t)policy, flags);
  if ((flags & ~MEM_ALL) || !spec_policy_ok(policy) || !spec_nodeset(flags)) REJECTED(ret);
  else check_this_dispatch(ret, flags, HWLOC_MEMBIND_PROCESS, HWLOC_MEMBIND_THREAD, topo.binding_hooks.set_thisproc_membind != 0,
                           topo.binding_hooks.set_thisthread_membind != 0, ID_SET_THISPROC_MEM, ID_SET_THISTHREAD_MEM);
  check_calls(spec_nodeset(flags), flags, policy);
  NO_LEAK();
  VERIF_CANARY();
}
void hp_hwloc_set_proc_membind(void)
{
  int flags = nondet_int(), policy = nondet_int(), ret; setup_hooks();
  ret = hwloc_set_proc_membind(&topo, (hwloc_pid_t)nondet_int(), &B_user, (hwloc_membind_policy_t)policy, flags);
  if ((flags & ~MEM_ALL) || !spec_policy_ok(policy) || !spec_nodeset(flags)) REJECTED(ret);
  else if (topo.binding_hooks.set_proc_membind) ONE_CALL(ret, ID_SET_PROC_MEM); else NOHOOK(ret);
  check_calls(spec_nodeset(flags), flags, policy);
  NO_LEAK();
  VERIF_CANARY();
}
void hp_hwloc_set_area_membind(void)
{
  int flags = nondet_int(), policy = nondet_int(), ret; size_t len = nondet_size_t(); setup_hooks();
  /* len==0 is documented as "nothing to do": the call returns 0 without validating the set (not covered here) */
  __CPROVER_assume(len > 0);
  ret = hwloc_set_area_membind(&topo, verif_area, len, &B_user, (hwloc_membind_policy_t)policy, flags);
  if ((flags & ~MEM_ALL) || !spec_policy_ok(policy) || !spec_nodeset(flags)) REJECTED(ret);
  else if (topo.binding_hooks.set_area_membind) { ONE_CALL(ret, ID_SET_AREA_MEM); A(h_len[0] == len, "length passed through"); } else NOHOOK(ret);
  check_calls(spec_nodeset(flags), flags, policy);
  NO_LEAK();
  VERIF_CANARY();
}

/* get side: the hook fills the user's nodeset (BYNODESET) or a temporary nodeset that is converted on success */
#define GET_MEM_COMMON(ret, flags) do { \
    check_calls((flags & HWLOC_MEMBIND_BYNODESET) ? &B_out : &B_tmp, flags, 0); \
    if (!(flags & HWLOC_MEMBIND_BYNODESET)) A(ret == 0 ? (out_state == 3 && out_from_tmp_state == 3) : out_state == 0, "cpuset converted from the hook's nodeset iff the hook succeeded"); \
    NO_LEAK(); } while (0)
void hp_hwloc_get_membind(void)
{
  int flags = nondet_int(), ret; hwloc_membind_policy_t policy; setup_hooks();
  ret = hwloc_get_membind(&topo, &B_out, &policy, flags);
  if (flags & ~MEM_ALL) { REJECTED(ret); A(out_state == 0, "rejected call leaves the user's set alone"); }
  else check_this_dispatch(ret, flags, HWLOC_MEMBIND_PROCESS, HWLOC_MEMBIND_THREAD, topo.binding_hooks.get_thisproc_membind != 0,
                           topo.binding_hooks.get_thisthread_membind != 0, ID_GET_THISPROC_MEM, ID_GET_THISTHREAD_MEM);
  if (!(flags & ~MEM_ALL)) GET_MEM_COMMON(ret, flags);
  NO_LEAK();
  VERIF_CANARY();
}
void hp_hwloc_get_proc_membind(void)
{
  int flags = nondet_int(), ret; hwloc_membind_policy_t policy; setup_hooks();
  ret = hwloc_get_proc_membind(&topo, (hwloc_pid_t)nondet_int(), &B_out, &policy, flags);
  if (flags & ~MEM_ALL) { REJECTED(ret); A(out_state == 0, "rejected call leaves the user's set alone"); }
  else if (topo.binding_hooks.get_proc_membind) ONE_CALL(ret, ID_GET_PROC_MEM); else NOHOOK(ret);
  if (!(flags & ~MEM_ALL) && h_n == 1) GET_MEM_COMMON(ret, flags);
  NO_LEAK();
  VERIF_CANARY();
}
void hp_hwloc_get_area_membind(void)
{
  int flags = nondet_int(), ret; hwloc_membind_policy_t policy; size_t len = nondet_size_t(); setup_hooks();
  ret = hwloc_get_area_membind(&topo, verif_area, len, &B_out, &policy, flags);
  if ((flags & ~MEM_ALL) || len == 0) { REJECTED(ret); A(out_state == 0, "rejected call leaves the user's set alone"); }
  else if (topo.binding_hooks.get_area_membind) ONE_CALL(ret, ID_GET_AREA_MEM); else NOHOOK(ret);
  if (h_n == 1) GET_MEM_COMMON(ret, flags);
  NO_LEAK();
  VERIF_CANARY();
}
void hp_hwloc_get_area_memlocation(void)
{
  int flags = nondet_int(), ret; size_t len = nondet_size_t(); setup_hooks();
  __CPROVER_assume(len > 0);   /* len==0: documented no-op returning 0 */
  ret = hwloc_get_area_memlocation(&topo, verif_area, len, &B_out, flags);
  if (flags & ~MEM_ALL) { REJECTED(ret); A(out_state == 0, "rejected call leaves the user's set alone"); }
  else if (topo.binding_hooks.get_area_memlocation) ONE_CALL(ret, ID_GET_AREA_LOC); else NOHOOK(ret);
  if (h_n == 1) GET_MEM_COMMON(ret, flags);
  NO_LEAK();
  VERIF_CANARY();
}

/* alloc_membind: invalid flags or policy are rejected before any OS call; hooks only ever see legal nodesets */
void hp_hwloc_alloc_membind(void)
{
  int flags = nondet_int(), policy = nondet_int(); size_t len = nondet_size_t(); void *p; unsigned k = nondet_unsigned(); setup_hooks();
  __CPROVER_assume(len > 0 && len <= 8);
  p = hwloc_alloc_membind(&topo, len, &B_user, (hwloc_membind_policy_t)policy, flags);
  if (((flags & ~MEM_ALL) || !spec_policy_ok(policy)) && ((flags & HWLOC_MEMBIND_BYNODESET) || spec_nodeset(flags) || (flags & HWLOC_MEMBIND_STRICT))) {
    A(p == 0 && h_n == 0, "invalid flags/policy: NULL before touching the OS");
  }
  if (k < (unsigned)h_n && k < MAXCALLS && (h_id[k] == ID_ALLOC_MEM || h_id[k] == ID_SET_AREA_MEM)) {
    A(h_set[k] == spec_nodeset(flags) && h_set[k] != 0, "binding hooks only get the legal nodeset");
    A(!(flags & ~MEM_ALL) && spec_policy_ok(policy) && !(flags & HWLOC_MEMBIND_MIGRATE), "binding hooks only run for valid flags and policy");
  }
  NO_LEAK();
  VERIF_CANARY();
}

/* ------------------------------------------------------------------ topologies that are not this system */
void hp_hwloc_dummy_hooks(void)
{
  int flags, policy, ret, which = nondet_int();
  hwloc_membind_policy_t pol = (hwloc_membind_policy_t)12345;
  struct hwloc_binding_hooks *b = &topo.binding_hooks;
  setup_hooks();
  topo.state = nondet_ulong() & ~(unsigned long)HWLOC_TOPOLOGY_STATE_IS_THISSYSTEM;
  hwloc_set_binding_hooks(&topo);
  A(b->set_thisproc_cpubind && b->get_thisproc_cpubind && b->set_thisthread_cpubind && b->get_thisthread_cpubind && b->set_proc_cpubind && b->get_proc_cpubind
    && b->set_thread_cpubind && b->get_thread_cpubind && b->get_thisproc_last_cpu_location && b->get_thisthread_last_cpu_location && b->get_proc_last_cpu_location
    && b->set_thisproc_membind && b->get_thisproc_membind && b->set_thisthread_membind && b->get_thisthread_membind && b->set_proc_membind && b->get_proc_membind
    && b->set_area_membind && b->get_area_membind && b->get_area_memlocation && b->alloc_membind && b->free_membind, "not this system: every hook is a dummy (never ENOSYS)");
  flags = nondet_int(); policy = nondet_int();
  if (which >= 0 && which <= 2) {          /* set-calls succeed without any system effect */
    __CPROVER_assume(!(flags & ~CPU_ALL) && spec_cpuset());
    ret = which == 0 ? hwloc_set_cpubind(&topo, &B_user, flags) : which == 1 ? hwloc_set_proc_cpubind(&topo, 1, &B_user, flags) : hwloc_set_thread_cpubind(&topo, 1, &B_user, flags);
    A(ret == 0 && h_n == 0, "not this system: cpubind set-calls succeed without OS call");
  } else if (which >= 3 && which <= 7) {   /* get-calls report the whole machine */
    __CPROVER_assume(!(flags & ~CPU_ALL));
    ret = which == 3 ? hwloc_get_cpubind(&topo, &B_out, flags) : which == 4 ? hwloc_get_proc_cpubind(&topo, 1, &B_out, flags) : which == 5 ? hwloc_get_thread_cpubind(&topo, 1, &B_out, flags)
        : which == 6 ? hwloc_get_last_cpu_location(&topo, &B_out, flags) : hwloc_get_proc_last_cpu_location(&topo, 1, &B_out, flags);
    A(ret == 0 && h_n == 0 && out_state == 1, "not this system: cpubind get-calls return the complete cpuset");
  } else if (which >= 8 && which <= 10) {
    __CPROVER_assume(!(flags & ~MEM_ALL) && spec_policy_ok(policy) && spec_nodeset(flags));
    ret = which == 8 ? hwloc_set_membind(&topo, &B_user, (hwloc_membind_policy_t)policy, flags) : which == 9 ? hwloc_set_proc_membind(&topo, 1, &B_user, (hwloc_membind_policy_t)policy, flags)
        : hwloc_set_area_membind(&topo, verif_area, 8, &B_user, (hwloc_membind_policy_t)policy, flags);
    A(ret == 0 && h_n == 0, "not this system: membind set-calls succeed without OS call");
    NO_LEAK();
  } else if (which >= 11 && which <= 14) {
    __CPROVER_assume(!(flags & ~MEM_ALL));
    ret = which == 11 ? hwloc_get_membind(&topo, &B_out, &pol, flags) : which == 12 ? hwloc_get_proc_membind(&topo, 1, &B_out, &pol, flags)
        : which == 13 ? hwloc_get_area_membind(&topo, verif_area, 8, &B_out, &pol, flags) : hwloc_get_area_memlocation(&topo, verif_area, 8, &B_out, flags);
    A(ret == 0 && h_n == 0, "not this system: membind get-calls succeed without OS call");
    A((flags & HWLOC_MEMBIND_BYNODESET) ? out_state == 2 : (out_state == 3 && out_from_tmp_state == 1), "not this system: membind get-calls return the complete nodeset (converted when a cpuset is asked)");
    A(which == 14 || pol == HWLOC_MEMBIND_MIXED, "not this system: policy reported as MIXED");
    NO_LEAK();
  }
  VERIF_CANARY();
}
