/* Plain harnesses for the loop-free type-order functions of topology.c (C11): full domain => complete. */

/* kind of a type, written from the documentation of hwloc_obj_type_is_normal/_memory/_io in hwloc.h:
 * 1 normal (Machine, Package, Die, Core, PU, CPU caches, Group), 2 memory (NUMANode, MemCache),
 * 3 I/O (Bridge, PCIDev, OSDev), 4 Misc */
static int spec_kind(hwloc_obj_type_t t)
{
  switch (t) {
  case HWLOC_OBJ_MACHINE: case HWLOC_OBJ_PACKAGE: case HWLOC_OBJ_DIE: case HWLOC_OBJ_CORE: case HWLOC_OBJ_PU:
  case HWLOC_OBJ_L1CACHE: case HWLOC_OBJ_L2CACHE: case HWLOC_OBJ_L3CACHE: case HWLOC_OBJ_L4CACHE: case HWLOC_OBJ_L5CACHE:
  case HWLOC_OBJ_L1ICACHE: case HWLOC_OBJ_L2ICACHE: case HWLOC_OBJ_L3ICACHE: case HWLOC_OBJ_GROUP:
    return 1;
  case HWLOC_OBJ_NUMANODE: case HWLOC_OBJ_MEMCACHE:
    return 2;
  case HWLOC_OBJ_BRIDGE: case HWLOC_OBJ_PCI_DEVICE: case HWLOC_OBJ_OS_DEVICE:
    return 3;
  case HWLOC_OBJ_MISC:
    return 4;
  default:
    return 0;
  }
}

void hp_hwloc_compare_types(void)
{
  unsigned a = nondet_unsigned(), b = nondet_unsigned(), c = nondet_unsigned();
  hwloc_obj_type_t t1, t2, t3;
  int c12, c21, c23, c13, k1, k2;
  __CPROVER_assume(a < HWLOC_OBJ_TYPE_MAX && b < HWLOC_OBJ_TYPE_MAX && c < HWLOC_OBJ_TYPE_MAX);
  t1 = (hwloc_obj_type_t)a; t2 = (hwloc_obj_type_t)b; t3 = (hwloc_obj_type_t)c;
  c12 = hwloc_compare_types(t1, t2); c21 = hwloc_compare_types(t2, t1);
  c23 = hwloc_compare_types(t2, t3); c13 = hwloc_compare_types(t1, t3);
  k1 = spec_kind(t1); k2 = spec_kind(t2);

  /* exactly one kind per type, and the library predicates agree with the documented kinds */
  __CPROVER_assert(k1 >= 1 && k1 <= 4, "every type has exactly one documented kind");
  __CPROVER_assert((hwloc__obj_type_is_normal(t1) != 0) == (k1 == 1), "is_normal matches the documented kind");
  __CPROVER_assert((hwloc__obj_type_is_memory(t1) != 0) == (k1 == 2), "is_memory matches the documented kind");
  __CPROVER_assert((hwloc__obj_type_is_io(t1) != 0) == (k1 == 3), "is_io matches the documented kind");
  __CPROVER_assert((hwloc__obj_type_is_special(t1) != 0) == (k1 == 3 || k1 == 4), "is_special = io or misc");
  __CPROVER_assert((hwloc__obj_type_is_normal(t1) != 0) + (hwloc__obj_type_is_memory(t1) != 0) + (hwloc__obj_type_is_io(t1) != 0) + (t1 == HWLOC_OBJ_MISC) == 1,
                   "exactly one of normal/memory/io/misc");

  /* antisymmetry */
  __CPROVER_assert((c12 == HWLOC_TYPE_UNORDERED) == (c21 == HWLOC_TYPE_UNORDERED), "unordered is symmetric");
  __CPROVER_assert(c12 == HWLOC_TYPE_UNORDERED || c12 == -c21, "compare(a,b) == -compare(b,a)");
  __CPROVER_assert((c12 == 0) == (t1 == t2), "0 iff same type");
  /* Machine highest, PU deepest */
  __CPROVER_assert(t1 != HWLOC_OBJ_MACHINE || t2 == HWLOC_OBJ_MACHINE || (c12 != HWLOC_TYPE_UNORDERED && c12 < 0), "Machine is above every other type");
  __CPROVER_assert(!(k1 == 1 && t1 != HWLOC_OBJ_PU && t2 == HWLOC_OBJ_PU) || (c12 != HWLOC_TYPE_UNORDERED && c12 < 0), "PU is the deepest normal type");
  /* consistency with the kinds: types containing CPUs can always be compared; a non-normal type is only comparable with Machine */
  __CPROVER_assert(!(k1 == 1 && k2 == 1) || c12 != HWLOC_TYPE_UNORDERED, "normal types are always comparable");
  __CPROVER_assert(!(k1 != 1 && k2 == 1 && t2 != HWLOC_OBJ_MACHINE) || c12 == HWLOC_TYPE_UNORDERED, "non-normal vs normal non-Machine is unordered");
  /* transitivity of the order among comparable types */
  __CPROVER_assert(!(c12 != HWLOC_TYPE_UNORDERED && c23 != HWLOC_TYPE_UNORDERED && c12 < 0 && c23 < 0 && c13 != HWLOC_TYPE_UNORDERED) || c13 < 0, "transitive");
  /* the order table is a permutation of 0..TYPE_MAX-1 and obj_order_type is its inverse */
  __CPROVER_assert(sizeof(obj_type_order) / sizeof(obj_type_order[0]) == HWLOC_OBJ_TYPE_MAX, "order table has one entry per type");
  __CPROVER_assert(obj_type_order[t1] < HWLOC_OBJ_TYPE_MAX, "order in range");
  __CPROVER_assert(t1 == t2 || obj_type_order[t1] != obj_type_order[t2], "order table is injective");
  __CPROVER_assert(obj_order_type[obj_type_order[t1]] == t1, "obj_order_type is the inverse table");
  VERIF_CANARY();
}
