/* Plain harnesses for the loop-free type-order functions of topology.c (C11): full domain => complete. */

/* kind of a type, written from the documentation of hwloc_obj_type_is_normal/_memory/_io in hwloc.h:
 * 1 normal (Machine, Package, Die, Core, PU, CPU caches, Group), 2 memory (NUMANode, MemCache),
 * 3 I/O (Bridge, PCIDev, OSDev), 4 Misc */
static int spec_kind(hwloc_obj_type_t t)
{
  switch (t) {
  case HWLOC_OBJ_MACHINE: case HWLOC_OBJ_PACKAGE: case HWLOC_OBJ_DIE: case HWLOC_OBJ_CORE: case HWLOC_OBJ_PU:
  case HWLOC_OBJ_L1CACHE: case HWLOC_OBJ_L2CACHE: case HWLOC_OBJ_L3CACHE: case HWLOC_OBJ_L4CACHE: case HWLOC_OBJ_L5CACHE:
  case HWLOC_OBJ_L1ICACHE: case HWLOC_OBJ_L2ICACHE: case HWLOC_OBJ_L3ICACHE: case HWLOC_OBJ_GROUP:
    return 1;
  case HWLOC_OBJ_NUMANODE: case HWLOC_OBJ_MEMCACHE:
    return 2;
  case HWLOC_OBJ_BRIDGE: case HWLOC_OBJ_PCI_DEVICE: case HWLOC_OBJ_OS_DEVICE:
    return 3;
  case HWLOC_OBJ_MISC:
    return 4;
  default:
    return 0;
  }
}

void hp_hwloc_compare_types(void)
{
  unsigned a = nondet_unsigned(), b = nondet_unsigned(), c = nondet_unsigned();
  hwloc_obj_type_t t1, t2, t3;
  int c12, c21, c23, c13, k1, k2;
  __CPROVER_assume(a < HWLOC_OBJ_TYPE_MAX && b < HWLOC_OBJ_TYPE_MAX && c < HWLOC_OBJ_TYPE_MAX);
  t1 = (hwloc_obj_type_t)a; t2 = (hwloc_obj_type_t)b; t3 = (hwloc_obj_type_t)c;
  c12 = hwloc_compare_types(t1, t2); c21 = hwloc_compare_types(t2, t1);
  c23 = hwloc_compare_types(t2, t3); c13 = hwloc_compare_types(t1, t3);
  k1 = spec_kind(t1); k2 = spec_kind(t2);

  /* exactly one kind per type, and the library predicates agree with the documented kinds */
  __CPROVER_assert(k1 >= 1 && k1 <= 4, "every type has exactly one documented kind");
  __CPROVER_assert((hwloc__obj_type_is_normal(t1) != 0) == (k1 == 1), "is_normal matches the documented kind");
  __CPROVER_assert((hwloc__obj_type_is_memory(t1) != 0) == (k1 == 2), "is_memory matches the documented kind");
  __CPROVER_assert((hwloc__obj_type_is_io(t1) != 0) == (k1 == 3), "is_io matches the documented kind");
  __CPROVER_assert((hwloc__obj_type_is_special(t1) != 0) == (k1 == 3 || k1 == 4), "is_special = io or misc");
  __CPROVER_assert((hwloc__obj_type_is_normal(t1) != 0) + (hwloc__obj_type_is_memory(t1) != 0) + (hwloc__obj_type_is_io(t1) != 0) + (t1 == HWLOC_OBJ_MISC) == 1,
                   "exactly one of normal/memory/io/misc");

  /* antisymmetry */
  __CPROVER_assert((c12 == HWLOC_TYPE_UNORDERED) == (c21 == HWLOC_TYPE_UNORDERED), "unordered is symmetric");
  __CPROVER_assert(c12 == HWLOC_TYPE_UNORDERED || c12 == -c21, "compare(a,b) == -compare(b,a)");
  __CPROVER_assert((c12 == 0) == (t1 == t2), "0 iff same type");
  /* Machine highest, PU deepest */
  __CPROVER_assert(t1 != HWLOC_OBJ_MACHINE || t2 == HWLOC_OBJ_MACHINE || (c12 != HWLOC_TYPE_UNORDERED && c12 < 0), "Machine is above every other type");
  __CPROVER_assert(!(k1 == 1 && t1 != HWLOC_OBJ_PU && t2 == HWLOC_OBJ_PU) || (c12 != HWLOC_TYPE_UNORDERED && c12 < 0), "PU is the deepest normal type");
  /* consistency with the kinds: types containing CPUs can always be compared; a non-normal type is only comparable with Machine */
  __CPROVER_assert(!(k1 == 1 && k2 == 1) || c12 != HWLOC_TYPE_UNORDERED, "normal types are always comparable");
  __CPROVER_assert(!(k1 != 1 && k2 == 1 && t2 != HWLOC_OBJ_MACHINE) || c12 == HWLOC_TYPE_UNORDERED, "non-normal vs normal non-Machine is unordered");
  /* transitivity of the order among comparable types */
  __CPROVER_assert(!(c12 != HWLOC_TYPE_UNORDERED && c23 != HWLOC_TYPE_UNORDERED && c12 < 0 && c23 < 0 && c13 != HWLOC_TYPE_UNORDERED) || c13 < 0, "transitive");
  /* the order table is a permutation of 0..TYPE_MAX-1 and obj_order_type is its inverse */
  __CPROVER_assert(sizeof(obj_type_order) / sizeof(obj_type_order[0]) == HWLOC_OBJ_TYPE_MAX, "order table has one entry per type");
  __CPROVER_assert(obj_type_order[t1] < HWLOC_OBJ_TYPE_MAX, "order in range");
  __CPROVER_assert(t1 == t2 || obj_type_order[t1] != obj_type_order[t2], "order table is injective");
  __CPROVER_assert(obj_order_type[obj_type_order[t1]] == t1, "obj_order_type is the inverse table");
  VERIF_CANARY();
}

/* (C12) hwloc__tma_dup_infos on an info list of 0..DI_N pairs (strings <= 2 chars, allocated > = count): on success the
 * destination holds private copies (distinct allocations, equal contents) of every pair with the same count / allocated;
 * the source is untouched.  The job runs with allocations that succeed: hwloc does not handle allocation failure on the dup
 * path (hwloc_topology_setup_defaults dereferences unchecked malloc results), so those paths are outside the property. */
#ifndef DI_N
#define DI_N 2
#endif
void hp_hwloc__tma_dup_infos(void)
{
  struct hwloc_infos_s src, dst; static char nm[DI_N][3], vl[DI_N][3]; struct hwloc_info_s *arr, shadow[DI_N]; unsigned k; int r;
  unsigned cnt = nondet_unsigned(), alloc = nondet_unsigned();
  __CPROVER_assume(cnt <= DI_N && alloc >= cnt && alloc <= DI_N + 1);
  VERIF_GHOSTS();
  arr = malloc((DI_N + 1) * sizeof(*arr)); __CPROVER_assume(arr != 0);
  for (k = 0; k < DI_N; k++) {
    nm[k][0] = nondet_char(); nm[k][1] = nondet_char(); nm[k][2] = 0; vl[k][0] = nondet_char(); vl[k][1] = nondet_char(); vl[k][2] = 0;
    arr[k].name = nm[k]; arr[k].value = vl[k]; shadow[k] = arr[k];
  }
  src.array = arr; src.count = cnt; src.allocated = alloc;
  dst.array = (struct hwloc_info_s *)0; dst.count = nondet_unsigned(); dst.allocated = nondet_unsigned();
  r = hwloc__tma_dup_infos((struct hwloc_tma *)0, &dst, &src);
  __CPROVER_assert(r == 0 || r == -1, "returns 0 or -1");
  __CPROVER_assert(src.array == arr && src.count == cnt && src.allocated == alloc, "the source descriptor is untouched");
  for (k = 0; k < DI_N; k++) __CPROVER_assert(arr[k].name == shadow[k].name && arr[k].value == shadow[k].value, "the source pairs are untouched");
  if (r == 0) {
    __CPROVER_assert(dst.count == cnt && dst.allocated == alloc && dst.array != 0 && dst.array != arr, "duplicate: same count / allocated, a private array");
    for (k = 0; k < DI_N; k++) if (k < cnt) {
      __CPROVER_assert(dst.array[k].name != nm[k] && dst.array[k].value != vl[k], "duplicate: strings are not shared with the source");
      __CPROVER_assert(dst.array[k].name[0] == nm[k][0] && (!nm[k][0] || (dst.array[k].name[1] == nm[k][1] && (!nm[k][1] || dst.array[k].name[2] == 0))), "duplicate: same name text");
      __CPROVER_assert(dst.array[k].value[0] == vl[k][0] && (!vl[k][0] || (dst.array[k].value[1] == vl[k][1] && (!vl[k][1] || dst.array[k].value[2] == 0))), "duplicate: same value text");
    }
  }
  VERIF_CANARY();
}
