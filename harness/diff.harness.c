/* Plain harnesses for diff.c (C16) on a pair of single objects (no children): every attribute a diff may carry or must
 * refuse is symbolic.  Strings are heap strings of <= 1 character (apply frees and replaces them). */
#ifndef NI
#define NI 2                      /* info pairs per object */
#endif
static struct hwloc_bitmap_s sets1[4], sets2[4];

union hwloc_obj_attr_u nondet_attr(void);
static char *mk_str(void) { char *s = malloc(2); __CPROVER_assume(s != 0); s[0] = nondet_char(); s[1] = 0; return s; }
static int str_eq(const char *a, const char *b) { return (!a && !b) || (a && b && a[0] == b[0] && (a[0] == 0 || a[1] == b[1])); }

static void mk_obj(hwloc_obj_t o, struct hwloc_bitmap_s *sets, unsigned ninfo)
{
  unsigned k;
  memset(o, 0, sizeof(*o));
  o->depth = nondet_int(); o->logical_index = nondet_unsigned(); o->os_index = nondet_unsigned();
  o->type = (hwloc_obj_type_t)nondet_int(); __CPROVER_assume(o->type >= 0 && o->type < HWLOC_OBJ_TYPE_MAX);
#ifdef DT_SIMPLE_TYPES
  __CPROVER_assume(o->type == HWLOC_OBJ_MACHINE || o->type == HWLOC_OBJ_NUMANODE || o->type == HWLOC_OBJ_CORE);   /* types without memcmp'ed attributes */
#endif
  o->subtype = nondet_bool() ? mk_str() : (char *)0;
  o->name = nondet_bool() ? mk_str() : (char *)0;
  o->total_memory = nondet_ulong();
  o->attr = malloc(sizeof(*o->attr)); __CPROVER_assume(o->attr != 0);
  *o->attr = nondet_attr();
  for (k = 0; k < 4; k++) sets[k].bits = (unsigned char)nondet_char();
  o->cpuset = nondet_bool() ? &sets[0] : (hwloc_bitmap_t)0; o->complete_cpuset = nondet_bool() ? &sets[1] : (hwloc_bitmap_t)0;
  o->nodeset = nondet_bool() ? &sets[2] : (hwloc_bitmap_t)0; o->complete_nodeset = nondet_bool() ? &sets[3] : (hwloc_bitmap_t)0;
  o->infos.count = ninfo; o->infos.allocated = ninfo;
  o->infos.array = ninfo ? malloc(ninfo * sizeof(*o->infos.array)) : (struct hwloc_info_s *)0; __CPROVER_assume(!ninfo || o->infos.array != 0);
  for (k = 0; k < NI; k++) if (k < ninfo) { o->infos.array[k].name = mk_str(); o->infos.array[k].value = mk_str(); }
}
#define SETDIFF(f) ((!A.f) != (!B.f) || (A.f && A.f->bits != B.f->bits))
static int attr_matters(hwloc_obj_type_t t, size_t *len)
{
  switch (t) {
  case HWLOC_OBJ_L1CACHE: case HWLOC_OBJ_L2CACHE: case HWLOC_OBJ_L3CACHE: case HWLOC_OBJ_L4CACHE: case HWLOC_OBJ_L5CACHE:
  case HWLOC_OBJ_L1ICACHE: case HWLOC_OBJ_L2ICACHE: case HWLOC_OBJ_L3ICACHE: *len = sizeof(struct hwloc_cache_attr_s); return 1;
  case HWLOC_OBJ_GROUP: *len = sizeof(struct hwloc_group_attr_s); return 1;
  case HWLOC_OBJ_PCI_DEVICE: *len = sizeof(struct hwloc_pcidev_attr_s); return 1;
  case HWLOC_OBJ_BRIDGE: *len = sizeof(struct hwloc_bridge_attr_s); return 1;
  case HWLOC_OBJ_OS_DEVICE: *len = sizeof(struct hwloc_osdev_attr_s); return 1;
  default: return 0;
  }
}

/* (1) build on one object pair, then apply, then apply in reverse */
void hp_hwloc_diff_trees_roundtrip(void)
{
  struct hwloc_obj A, B; hwloc_topology_diff_t first = (hwloc_topology_diff_t)0, last = (hwloc_topology_diff_t)0, d;
  unsigned n1 = nondet_unsigned(), n2 = nondet_unsigned(), k, g = nondet_unsigned(); int err, complex = 0, nonrep = 0, differs = 0, r; size_t alen = 0;
  char on0 = 0, on1 = 0, oi[NI]; int had_name; hwloc_uint64_t olm, otm;
  __CPROVER_assume(n1 <= NI && n2 <= NI);
  mk_obj(&A, sets1, n1); mk_obj(&B, sets2, n2);
  verif_o1 = &A; verif_o2 = &B; verif_t1.nb_levels = 1000; verif_t2.nb_levels = 1000;
  verif_t1.state = HWLOC_TOPOLOGY_STATE_IS_LOADED; verif_t1.adopted_shmem_addr = (void *)0;
  __CPROVER_assume(A.depth != 1000);       /* (int) nb_levels is the pseudo-depth of topology-level infos */
  /* what a diff cannot express, as listed by the property and the documentation of hwloc_topology_diff_build() */
  nonrep = A.depth != B.depth || A.type != B.type || !str_eq(A.subtype, B.subtype) || A.os_index != B.os_index
        || SETDIFF(cpuset) || SETDIFF(complete_cpuset) || SETDIFF(nodeset) || SETDIFF(complete_nodeset)
        || (!A.name) != (!B.name)                                    /* name set vs unset */
        || (attr_matters(A.type, &alen) && memcmp(A.attr, B.attr, alen) != 0)
        || n1 != n2;                                                 /* added / removed info */
  for (k = 0; k < NI; k++) if (k < n1 && k < n2 && !str_eq(A.infos.array[k].name, B.infos.array[k].name)) nonrep = 1;
  differs = !str_eq(A.name, B.name) || (A.type == HWLOC_OBJ_NUMANODE && A.attr->numanode.local_memory != B.attr->numanode.local_memory);
  for (k = 0; k < NI; k++) if (k < n1 && k < n2 && !str_eq(A.infos.array[k].value, B.infos.array[k].value)) differs = 1;
  had_name = A.name != 0; if (A.name) { on0 = A.name[0]; on1 = A.name[1]; }
  for (k = 0; k < NI; k++) if (k < n1) oi[k] = A.infos.array[k].value[0];
  olm = A.attr->numanode.local_memory; otm = A.total_memory;

  err = hwloc_diff_trees(&verif_t1, &A, &verif_t2, &B, 0, &first, &last);
  __CPROVER_assert(err == 0, "diff_trees returns 0 (allocation never fails in this run)");
  for (d = first, k = 0; d && k < 2 * NI + 4; d = d->generic.next, k++) if (d->generic.type == HWLOC_TOPOLOGY_DIFF_TOO_COMPLEX) complex = 1;
  __CPROVER_assert(complex == nonrep, "a TOO_COMPLEX entry is produced exactly when the objects differ in something a diff cannot express");
  if (!complex) {
    __CPROVER_assert((first == 0) == !differs, "the diff is empty iff nothing differs");
    for (d = first, k = 0; d && k < 2 * NI + 4; d = d->generic.next, k++) if (k == g) {
      __CPROVER_assert(d->generic.type == HWLOC_TOPOLOGY_DIFF_OBJ_ATTR && d->obj_attr.obj_depth == A.depth && d->obj_attr.obj_index == A.logical_index, "every entry addresses the object by (depth, logical index)");
      if (d->obj_attr.diff.generic.type == HWLOC_TOPOLOGY_DIFF_OBJ_ATTR_NAME) __CPROVER_assert(d->obj_attr.diff.string.oldvalue != 0 && d->obj_attr.diff.string.newvalue != 0, "NAME entries carry both names");
      if (d->obj_attr.diff.generic.type == HWLOC_TOPOLOGY_DIFF_OBJ_ATTR_INFO) __CPROVER_assert(d->obj_attr.diff.string.name != 0 && d->obj_attr.diff.string.oldvalue != 0 && d->obj_attr.diff.string.newvalue != 0, "INFO entries carry the name and both values");
    }
#ifndef DT_BUILD_ONLY
    errno = 0;
    r = hwloc_topology_diff_apply(&verif_t1, first, 0);
    __CPROVER_assert(r == 0, "applying the built diff to A succeeds");
    __CPROVER_assert(str_eq(A.name, B.name), "after apply: A has B's name");
    if (A.type == HWLOC_OBJ_NUMANODE) __CPROVER_assert(A.attr->numanode.local_memory == B.attr->numanode.local_memory && A.total_memory == otm + (B.attr->numanode.local_memory - olm), "after apply: A has B's local memory, total_memory follows");
    else __CPROVER_assert(A.total_memory == otm, "after apply: total_memory untouched for other types");
    if (g < n1) __CPROVER_assert(str_eq(A.infos.array[g].value, B.infos.array[g].value) && str_eq(A.infos.array[g].name, B.infos.array[g].name), "after apply: A has B's info values");
    r = hwloc_topology_diff_apply(&verif_t1, first, HWLOC_TOPOLOGY_DIFF_APPLY_REVERSE);
    __CPROVER_assert(r == 0, "applying the built diff in reverse succeeds");
    __CPROVER_assert((A.name != 0) == had_name && (!had_name || (A.name[0] == on0 && (on0 == 0 || A.name[1] == on1))), "after reverse: A has its own name again");
    __CPROVER_assert(A.total_memory == otm && A.attr->numanode.local_memory == olm, "after reverse: memory restored");
    if (g < n1) __CPROVER_assert(A.infos.array[g].value[0] == oi[g], "after reverse: info values restored");
#endif
  }
  VERIF_CANARY();
}
