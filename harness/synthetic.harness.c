/* Harnesses for topology-synthetic.c (C07).
 *
 * Export side.  Every export helper keeps the cursor triple (tmp, tmplen, ret) of a snprintf-style writer:
 *     INV(buf,buflen):  0 <= tmplen <= buflen,  tmp == buf + (buflen - tmplen),  buflen > 0 ==> tmplen >= 1
 * hwloc__export_synthetic_update_status and _add_char are the only places that move the cursor; both are loop-free
 * and are proved to preserve INV for ALL values (hp_synth_update_status, hp_synth_add_char): this is the induction
 * step of "never writes outside [buffer, buffer+buflen)" for exports of any size.  The composite functions are then
 * checked on explicit small object graphs (bounded, labelled so).
 *
 * Import side.  The parser is checked on arbitrary short strings (memory safety, return values, what an accepted
 * description leaves in the level table) and on structured descriptions of up to the maximal depth.
 */
struct hwloc_obj nondet_obj(void);
union hwloc_obj_attr_u nondet_attr(void);

static char *verif_mkbuf(size_t size)
{
  char *buf = (char *)0;
  verif_arena = nondet_arena();
  verif_shadow = verif_arena;
  if (size > 0 || nondet_bool())
    buf = verif_arena.b + ARENA_PRE;
  verif_size = size; verif_buf = buf; verif_snprintf_sum = 0; verif_snprintf_neg = 0; verif_last_nul = 0; verif_snprintf_calls = 0;
  return buf;
}
#define CHECK_FRAME(size) __CPROVER_assert(g_j >= ARENA_N || (g_j >= ARENA_PRE && g_j < ARENA_PRE + (size)) || \
                                           verif_arena.b[g_j * (g_j < ARENA_N)] == verif_shadow.b[g_j * (g_j < ARENA_N)], "nothing written outside [buf, buf+size)")

/* ------------------------------------------------------------------ the two cursor steps: loop-free, all values */
void hp_synth_update_status(void)
{
  size_t buflen = nondet_size_t(); ssize_t tmplen = (ssize_t)nondet_size_t(), tmplen0; int ret = nondet_int(), ret0, res = nondet_int(), r;
  char *buf, *tmp, *tmp0;
  __CPROVER_assume(buflen <= BUFMAX);
  VERIF_GHOSTS();
  buf = verif_mkbuf(buflen);
  __CPROVER_assume(tmplen >= 0 && (size_t)tmplen <= buflen && (buflen == 0 || tmplen >= 1));      /* INV */
  tmp = buf ? buf + (buflen - (size_t)tmplen) : buf;
  __CPROVER_assume(ret >= 0 && ret < (1 << 30) && res < (1 << 30));                           /* int sums stay finite: lengths < 2^30 */
  tmp0 = tmp; tmplen0 = tmplen; ret0 = ret;
  r = hwloc__export_synthetic_update_status(&ret, &tmp, &tmplen, res);
  if (res < 0) {
    __CPROVER_assert(r == -1 && ret == ret0 && tmp == tmp0 && tmplen == tmplen0, "a failed piece is reported and moves nothing");
  } else {
    __CPROVER_assert(r == 0 && ret == ret0 + res, "the would-be length grows by exactly the piece length");
    __CPROVER_assert(tmplen >= 0 && (size_t)tmplen <= buflen && (buflen == 0 || tmplen >= 1), "INV: remaining space stays in [1,buflen] (0 iff buflen==0)");
    __CPROVER_assert(buf == (char *)0 ? tmp == tmp0 : tmp == buf + (buflen - (size_t)tmplen), "INV: cursor == buffer + (buflen - remaining)");
    __CPROVER_assert(tmplen0 - tmplen == (res < tmplen0 ? res : (tmplen0 > 0 ? tmplen0 - 1 : 0)), "advances by min(piece, remaining-1)");
  }
  CHECK_FRAME(0);    /* writes nothing */
  VERIF_CANARY();
}

void hp_synth_add_char(void)
{
  size_t buflen = nondet_size_t(); ssize_t tmplen = (ssize_t)nondet_size_t(), tmplen0; int ret = nondet_int(), ret0; char c = nondet_char();
  char *buf, *tmp, *tmp0;
  __CPROVER_assume(buflen <= BUFMAX);
  VERIF_GHOSTS();
  buf = verif_mkbuf(buflen);
  __CPROVER_assume(tmplen >= 0 && (size_t)tmplen <= buflen && (buflen == 0 || tmplen >= 1));      /* INV */
  tmp = buf ? buf + (buflen - (size_t)tmplen) : buf;
  __CPROVER_assume(ret >= 0 && ret < (1 << 30));
  tmp0 = tmp; tmplen0 = tmplen; ret0 = ret;
  hwloc__export_synthetic_add_char(&ret, &tmp, &tmplen, c);
  __CPROVER_assert(ret == ret0 + 1, "the would-be length grows by one");
  __CPROVER_assert(tmplen >= 0 && (size_t)tmplen <= buflen && (buflen == 0 || tmplen >= 1), "INV: remaining space stays in [1,buflen] (0 iff buflen==0)");
  __CPROVER_assert(buf == (char *)0 ? tmp == tmp0 : tmp == buf + (buflen - (size_t)tmplen), "INV: cursor == buffer + (buflen - remaining)");
  __CPROVER_assert(tmplen0 <= 1 ? (tmp == tmp0 && tmplen == tmplen0) : (tmp == tmp0 + 1 && tmp0[0] == c && tmp[0] == 0), "stores the character and a NUL after it iff two bytes are left");
  /* frame: only [tmp0, tmp0+tmplen0) inside the caller's buffer may change */
  __CPROVER_assert(g_j >= ARENA_N || (buf != (char *)0 && g_j >= ARENA_PRE + (buflen - (size_t)tmplen0) && g_j < ARENA_PRE + buflen) ||
                   verif_arena.b[g_j * (g_j < ARENA_N)] == verif_shadow.b[g_j * (g_j < ARENA_N)], "nothing written outside [tmp, tmp+tmplen)");
  VERIF_CANARY();
}

/* ------------------------------------------------------------------ explicit small object graphs for the composite exporters */
#ifndef NB
#define NB 2            /* objects per level whose indexes may be exported */
#endif
static struct hwloc_topology topo;
static struct hwloc_obj lobj[NB];             /* one level of NB cousins */
static union hwloc_obj_attr_u lattr[NB];
static hwloc_obj_t lvl[NB];
static hwloc_obj_t *topo_levels[4];
static unsigned topo_nbobjs[4];

static void mk_level(hwloc_obj_type_t type, int depth)
{
  unsigned k;
  for (k = 0; k < NB; k++) {
    lobj[k] = nondet_obj(); lattr[k] = nondet_attr();
    lobj[k].type = type; lobj[k].attr = &lattr[k]; lobj[k].depth = depth; lobj[k].logical_index = k;
    lobj[k].next_cousin = k + 1 < NB ? &lobj[k + 1] : (hwloc_obj_t)0;
    lobj[k].parent = (hwloc_obj_t)0; lobj[k].memory_first_child = (hwloc_obj_t)0; lobj[k].first_child = (hwloc_obj_t)0; lobj[k].next_sibling = (hwloc_obj_t)0;
    lobj[k].arity = 0; lobj[k].memory_arity = 0;
    lvl[k] = &lobj[k];
  }
  topo.levels = topo_levels; topo.level_nbobjects = topo_nbobjs; topo.nb_levels = 4;
}

/* snprintf-style contract of a composite exporter; nchars_max = separators the structure can add */
#define CHECK_EXPORT(r, buf, size, nchars_min, nchars_max) do { \
    __CPROVER_assert(verif_snprintf_neg ? (r) < 0 : (r) >= 0, "negative iff a piece failed"); \
    __CPROVER_assert((r) < 0 || ((long)(r) >= verif_snprintf_sum + (nchars_min) && (long)(r) <= verif_snprintf_sum + (nchars_max)), "returns the untruncated length: sum of the pieces plus the separators"); \
    __CPROVER_assert((size) == 0 || (r) <= 0 || (buf)[(size_t)(r) < (size) ? (size_t)(r) : (size) - 1] == 0, "NUL-terminated at min(length, size-1) when something was printed"); \
    CHECK_FRAME(size); \
  } while (0)

void hp_synth_export_indexes(void)
{
  size_t size = nondet_size_t(); char *buf; int r;
  __CPROVER_assume(size <= BUFMAX);
  VERIF_GHOSTS();
  mk_level(HWLOC_OBJ_PU, 2);
  buf = verif_mkbuf(size);
  r = hwloc__export_synthetic_indexes(lvl, NB, buf, size);
  CHECK_EXPORT(r, buf, size, 0, 0);
  VERIF_CANARY();
}

static struct hwloc_obj mc[2], par;          /* up to two memory-side caches above a NUMA node, then a normal parent */
static union hwloc_obj_attr_u mcattr[2], parattr;

void hp_synth_export_obj_attr(void)
{
  size_t size = nondet_size_t(); unsigned long flags = nondet_ulong(); char *buf; int r;
  hwloc_obj_type_t type = (hwloc_obj_type_t)nondet_int();
  unsigned nmc = nondet_unsigned();
  __CPROVER_assume(size <= BUFMAX && type >= HWLOC_OBJ_TYPE_MIN && type < HWLOC_OBJ_TYPE_MAX && nmc <= 2);
  VERIF_GHOSTS();
  mk_level(type, type == HWLOC_OBJ_NUMANODE ? HWLOC_TYPE_DEPTH_NUMANODE : 1);
  lobj[0].logical_index = nondet_unsigned();          /* only the first object of a level exports indexes */
  par = nondet_obj(); par.attr = &parattr; par.type = HWLOC_OBJ_PACKAGE; par.parent = (hwloc_obj_t)0;
  mc[0] = nondet_obj(); mc[1] = nondet_obj(); mcattr[0] = nondet_attr(); mcattr[1] = nondet_attr();
  mc[0].attr = &mcattr[0]; mc[1].attr = &mcattr[1]; mc[0].type = mc[1].type = HWLOC_OBJ_MEMCACHE;
  mc[0].parent = nmc == 2 ? &mc[1] : &par; mc[1].parent = &par;
  lobj[0].parent = nmc ? &mc[0] : &par;
  topo.slevels[HWLOC_SLEVEL_NUMANODE].nbobjs = NB; topo.slevels[HWLOC_SLEVEL_NUMANODE].objs = lvl;
  topo.level_nbobjects[1] = NB; topo.levels[1] = lvl;
  buf = verif_mkbuf(size);
  r = hwloc__export_synthetic_obj_attr(&topo, flags, &lobj[0], buf, size);
  CHECK_EXPORT(r, buf, size, 0, 0);
  VERIF_CANARY();
}

void hp_synth_export_obj(void)
{
  size_t size = nondet_size_t(); unsigned long flags = nondet_ulong(); unsigned arity = nondet_unsigned(); char *buf; int r;
  hwloc_obj_type_t type = (hwloc_obj_type_t)nondet_int();
  __CPROVER_assume(size <= BUFMAX && type >= HWLOC_OBJ_TYPE_MIN && type < HWLOC_OBJ_TYPE_MAX);
  VERIF_GHOSTS();
  mk_level(type, type == HWLOC_OBJ_NUMANODE ? HWLOC_TYPE_DEPTH_NUMANODE : 1);
  lobj[0].logical_index = nondet_unsigned();
  par = nondet_obj(); par.attr = &parattr; par.type = HWLOC_OBJ_PACKAGE; par.parent = (hwloc_obj_t)0;
  lobj[0].parent = &par;
  topo.slevels[HWLOC_SLEVEL_NUMANODE].nbobjs = NB; topo.slevels[HWLOC_SLEVEL_NUMANODE].objs = lvl;
  topo.level_nbobjects[1] = NB; topo.levels[1] = lvl;
  buf = verif_mkbuf(size);
  r = hwloc__export_synthetic_obj(&topo, flags, &lobj[0], arity, buf, size);
  CHECK_EXPORT(r, buf, size, 0, 0);
  VERIF_CANARY();
}

#ifndef SHAPE_NM
#define SHAPE_NM 2       /* number of memory children */
#endif
#ifndef SHAPE_MC
#define SHAPE_MC 2       /* bit k: memory child k is a memory-side cache above its NUMA node */
#endif
#ifndef SHAPE_MID
#define SHAPE_MID 1      /* an intermediate level between Machine and PU */
#endif
/* a parent with nm <= 2 memory children; child k is a NUMA node (lobj[k]) or a memory-side cache above it */
static struct hwloc_obj mpar;
static void mk_memory_children(unsigned nm)
{
  unsigned k;
  mk_level(HWLOC_OBJ_NUMANODE, HWLOC_TYPE_DEPTH_NUMANODE);
  mpar = nondet_obj(); mpar.attr = &parattr; mpar.type = HWLOC_OBJ_PACKAGE; mpar.parent = (hwloc_obj_t)0;
  mpar.memory_arity = nm; mpar.memory_first_child = (hwloc_obj_t)0;
  for (k = 0; k < 2; k++) {
    mc[k] = nondet_obj(); mcattr[k] = nondet_attr(); mc[k].attr = &mcattr[k]; mc[k].type = HWLOC_OBJ_MEMCACHE; mc[k].parent = &mpar;
    mc[k].memory_first_child = &lobj[k]; mc[k].next_sibling = (hwloc_obj_t)0;
  }
  for (k = 0; k < nm && k < 2; k++) {
    hwloc_obj_t child = ((SHAPE_MC >> k) & 1) ? &mc[k] : &lobj[k];      /* concrete shape per job: symbolic links would make every loop run to the unwinding bound */
    lobj[k].parent = child == &lobj[k] ? &mpar : &mc[k];
    if (k == 0) mpar.memory_first_child = child;
    else (mpar.memory_first_child)->next_sibling = child;
  }
  topo.slevels[HWLOC_SLEVEL_NUMANODE].nbobjs = NB; topo.slevels[HWLOC_SLEVEL_NUMANODE].objs = lvl;
}

void hp_synth_export_memory_children(void)
{
  size_t size = nondet_size_t(); unsigned long flags = nondet_ulong(); unsigned nm = SHAPE_NM; int needprefix = nondet_int(), verbose = 0; char *buf; int r;
  long nchars;
  __CPROVER_assume(size <= BUFMAX && nm <= 2 && NB >= 2);
  VERIF_GHOSTS();
  mk_memory_children(nm);
  if (nondet_bool()) mpar.memory_arity = nondet_unsigned();      /* v1 refuses memory_arity > 1 */
  buf = verif_mkbuf(size);
  r = hwloc__export_synthetic_memory_children(&topo, flags, &mpar, buf, size, needprefix, verbose);
  if (nm == 0) {
    __CPROVER_assert(r == 0 && verif_snprintf_calls == 0, "no memory child: nothing exported");
  } else if ((flags & HWLOC_TOPOLOGY_EXPORT_SYNTHETIC_FLAG_V1) && mpar.memory_arity > 1) {
    __CPROVER_assert(r == -1 && verif_errno == EINVAL && verif_snprintf_calls == 0, "v1 cannot export several memory children: EINVAL, nothing exported");
  } else {
    /* separators: v1 -> optional ' '; v2 -> per child optional ' ' then '[' and ']' (needprefix becomes 1 after the first child) */
    if (flags & HWLOC_TOPOLOGY_EXPORT_SYNTHETIC_FLAG_V1) nchars = needprefix ? 1 : 0;
    else nchars = (needprefix ? 1 : 0) + 2 + (nm == 2 ? 3 : 0);
    CHECK_EXPORT(r, buf, size, nchars, nchars);
  }
  if (!((flags & HWLOC_TOPOLOGY_EXPORT_SYNTHETIC_FLAG_V1) && mpar.memory_arity > 1 && nm)) CHECK_FRAME(size);
  VERIF_CANARY();
}

/* whole export: Machine -> [one intermediate level] -> PU, memory children below the root, flags without V1
 * (the v1 pre-check walks type_depth tables through helper.h inlines: C09, not claimed) */
static struct hwloc_obj root, mid, pu[2];
static union hwloc_obj_attr_u rootattr, midattr, puattr[2];
static hwloc_obj_t rootlvl[1], midlvl[1], pulvl[2];
void hp_synth_export(void)
{
  size_t size = nondet_size_t(); unsigned long flags = nondet_ulong(); unsigned nm = SHAPE_NM; char *buf; int r; int has_mid = SHAPE_MID;
  unsigned k;
  __CPROVER_assume(size <= BUFMAX && nm <= 2 && NB >= 2);
  __CPROVER_assume(!(flags & HWLOC_TOPOLOGY_EXPORT_SYNTHETIC_FLAG_V1));
  VERIF_GHOSTS();
  mk_memory_children(nm);
  root = mpar; root.type = HWLOC_OBJ_MACHINE; root.attr = &rootattr; root.depth = 0; root.logical_index = 0; root.next_cousin = (hwloc_obj_t)0;
  for (k = 0; k < 2; k++) { if (lobj[k].parent == &mpar) lobj[k].parent = &root; mc[k].parent = &root; }
  mid = nondet_obj(); midattr = nondet_attr(); mid.attr = &midattr; mid.depth = 1; mid.next_cousin = (hwloc_obj_t)0; mid.memory_first_child = (hwloc_obj_t)0; mid.memory_arity = 0; mid.parent = &root;
  __CPROVER_assume(mid.type >= HWLOC_OBJ_PACKAGE && mid.type <= HWLOC_OBJ_GROUP && mid.type != HWLOC_OBJ_PU && mid.type != HWLOC_OBJ_NUMANODE);     /* a normal intermediate type */
  for (k = 0; k < 2; k++) {
    pu[k] = nondet_obj(); puattr[k] = nondet_attr(); pu[k].attr = &puattr[k]; pu[k].type = HWLOC_OBJ_PU; pu[k].depth = has_mid ? 2 : 1; pu[k].logical_index = k;
    pu[k].arity = 0; pu[k].first_child = (hwloc_obj_t)0; pu[k].memory_first_child = (hwloc_obj_t)0; pu[k].memory_arity = 0; pu[k].next_cousin = k == 0 ? &pu[1] : (hwloc_obj_t)0;
    pu[k].parent = has_mid ? &mid : &root; pulvl[k] = &pu[k];
  }
  rootlvl[0] = &root; midlvl[0] = &mid;
  topo.levels[0] = rootlvl; topo.level_nbobjects[0] = 1;
  if (has_mid) {
    root.arity = 1; root.first_child = &mid; mid.arity = 2; mid.first_child = &pu[0];
    topo.levels[1] = midlvl; topo.level_nbobjects[1] = 1; topo.levels[2] = pulvl; topo.level_nbobjects[2] = 2;
  } else {
    root.arity = 2; root.first_child = &pu[0];
    topo.levels[1] = pulvl; topo.level_nbobjects[1] = 2;
  }
  topo.state = nondet_int();
  buf = verif_mkbuf(size);
  r = hwloc_topology_export_synthetic(&topo, buf, size, flags);
  if (!(topo.state & HWLOC_TOPOLOGY_STATE_IS_LOADED) || (flags & ~0xfUL) || !root.symmetric_subtree) {
    __CPROVER_assert(r == -1 && verif_errno == EINVAL && verif_snprintf_calls == 0, "not loaded / unknown flags / asymmetric root: EINVAL, nothing exported");
    CHECK_FRAME(0);
  } else if (r >= 0 || verif_snprintf_calls) {
    CHECK_EXPORT(r, buf, size, 0, 8);
  }
  VERIF_CANARY();
}

/* ------------------------------------------------------------------ import side */
#ifndef SLEN
#define SLEN 5
#endif
struct verif_sstr { char c[SLEN + 1]; };
struct verif_sstr nondet_sstr(void);

void hp_synth_parse_memory_attr(void)
{
  struct verif_sstr *s = malloc(sizeof(*s)); const char *endp = (const char *)0; unsigned k = nondet_unsigned();
  __CPROVER_assume(s != 0 && k <= SLEN);
  *s = nondet_sstr(); s->c[SLEN] = 0;
  (void)hwloc_synthetic_parse_memory_attr(s->c + k, &endp);
  __CPROVER_assert(__CPROVER_same_object(endp, s->c) && endp >= s->c + k && endp <= s->c + SLEN, "the end pointer stays inside the string");
  __CPROVER_assert(strlen(s->c + k) >= (size_t)(endp - (s->c + k)), "the end pointer does not pass the terminating NUL");
  VERIF_CANARY();
}

void hp_synth_parse_attrs(void)
{
  struct verif_sstr *s = malloc(sizeof(*s)); const char *next = (const char *)0; struct hwloc_synthetic_attr_s sattr; struct hwloc_synthetic_indexes_s sind; int r;
  __CPROVER_assume(s != 0);
  *s = nondet_sstr(); s->c[SLEN] = 0;
  sattr.type = (hwloc_obj_type_t)nondet_int(); sattr.memorysize = nondet_ulong(); sattr.memorysidecachesize = nondet_ulong(); sattr.depth = nondet_unsigned();
  sind.string = (const char *)0; sind.string_length = 0; sind.array = (unsigned *)0; sind.next = 0;
  r = hwloc_synthetic_parse_attrs(s->c, &next, &sattr, &sind, 0);
  __CPROVER_assert(r == 0 || (r == -1 && verif_errno == EINVAL), "returns 0, or -1 with EINVAL");
  if (r == 0) {
    __CPROVER_assert(__CPROVER_same_object(next, s->c) && next > s->c && next <= s->c + SLEN && next[-1] == ')', "accepted: the next position is just after the closing bracket");
    __CPROVER_assert(sind.string == (const char *)0 || (__CPROVER_same_object(sind.string, s->c) && sind.string + sind.string_length < next), "accepted: the indexes text lies inside the attribute list");
  }
  VERIF_CANARY();
}

/* what an accepted description must leave in the level table (the facts hwloc__look_synthetic relies on, some of them
 * through assert()): count levels, arity > 0 above the last one and 0 there, normal or NUMA types (Machine only at the
 * root, PU only at the bottom), attached entries are NUMA nodes, index arrays NULL or allocated */
static struct hwloc_synthetic_backend_data_s *sdata;
static void check_levels(void)
{
  unsigned i, count = 0;
  for (i = 0; i < HWLOC_SYNTHETIC_MAX_DEPTH; i++) { count++; if (!sdata->level[i].arity) break; }      /* arities are concrete in the structured harnesses */
  __CPROVER_assert(i < HWLOC_SYNTHETIC_MAX_DEPTH, "accepted: the level table is terminated by an arity-0 level");
  __CPROVER_assert(count >= 2, "accepted: at least Machine and PU");
  __CPROVER_assert(sdata->level[0].attr.type == HWLOC_OBJ_MACHINE, "accepted: the root is a Machine");
  __CPROVER_assert(sdata->level[(count - 1) * (count <= HWLOC_SYNTHETIC_MAX_DEPTH)].attr.type == HWLOC_OBJ_PU, "accepted: the last level is the PU level");
  if (count >= 2 && g_j > 0 && g_j < count - 1 && count <= HWLOC_SYNTHETIC_MAX_DEPTH) {
    hwloc_obj_type_t t = sdata->level[g_j].attr.type;
    __CPROVER_assert((int)t >= HWLOC_OBJ_TYPE_MIN && (int)t < HWLOC_OBJ_TYPE_MAX && (hwloc__obj_type_is_normal(t) || t == HWLOC_OBJ_NUMANODE) && t != HWLOC_OBJ_MACHINE && t != HWLOC_OBJ_PU, "accepted: every intermediate level has a normal (or NUMA) type that hwloc__look_synthetic can build");
    __CPROVER_assert(!hwloc__obj_type_is_cache(t) || (sdata->level[g_j].attr.depth >= 1 && sdata->level[g_j].attr.depth <= 5), "accepted: cache levels carry a depth 1..5");
  }
}

/* hwloc_backend_synthetic_init on an ARBITRARY NUL-terminated string of <= SLEN bytes */
void hp_synth_init_arbitrary(void)
{
  struct verif_sstr *s = malloc(sizeof(*s)); int r;
  sdata = malloc(sizeof(*sdata));
  __CPROVER_assume(s != 0 && sdata != 0);
  VERIF_GHOSTS();
  *s = nondet_sstr(); s->c[SLEN] = 0;
  r = hwloc_backend_synthetic_init(sdata, s->c);
  __CPROVER_assert(r == 0 || r == -1, "accepts (0) or rejects (-1)");
  __CPROVER_assert(r == 0 || verif_errno == EINVAL, "rejected descriptions set EINVAL");
  if (r == 0) check_levels();
  VERIF_CANARY();
}

/* structured descriptions (concrete text per job, so that symbolic execution stays linear up to the maximal depth):
 *   SYN_PREFIX  SYN_TOK x SYN_N  SYN_LAST        e.g. "" + "g:1 " x 125 + "u:1"   or   "[n] " + "2 " x 4 + "2"
 * the type parser stub maps the first letter of a type name to a type, numbers are parsed exactly.  What is checked:
 * the parser is memory safe (every access to the level table in bounds), returns 0/-1, and an accepted description
 * leaves a level table hwloc__look_synthetic can build. */
#ifndef SYN_N
#define SYN_N 3
#endif
#ifndef SYN_TOK
#define SYN_TOK "g:1 "
#endif
#ifndef SYN_LAST
#define SYN_LAST "u:1"
#endif
#ifndef SYN_PREFIX
#define SYN_PREFIX ""
#endif
void hp_synth_init_levels(void)
{
  static char s[sizeof(SYN_PREFIX) + SYN_N * (sizeof(SYN_TOK) - 1) + sizeof(SYN_LAST)]; unsigned k; int r; char *p = s;
  static struct hwloc_synthetic_backend_data_s sdata_obj;      /* a static object: reads through a may-be-NULL malloc result are not constant-folded */
  sdata = &sdata_obj;
  VERIF_GHOSTS();
  /* byte-wise stores (a memcpy of the literals would leave byte-update terms the simplifier does not fold to constants) */
  { unsigned j; const char *pre = SYN_PREFIX, *tok = SYN_TOK, *last = SYN_LAST;
    for (j = 0; j < sizeof(SYN_PREFIX) - 1; j++) *p++ = pre[j];
    for (k = 0; k < SYN_N; k++) for (j = 0; j < sizeof(SYN_TOK) - 1; j++) *p++ = tok[j];
    for (j = 0; j < sizeof(SYN_LAST); j++) *p++ = last[j]; }
  r = hwloc_backend_synthetic_init(sdata, s);
  __CPROVER_assert(r == 0 || r == -1, "accepts (0) or rejects (-1)");
#ifdef SYN_EXPECT_ACCEPT
  __CPROVER_assert(r == 0, "a well-formed description within the depth limit is accepted");
#endif
  if (r == 0) check_levels();
  VERIF_CANARY();
}

/* hwloc_synthetic_process_indexes: an arbitrary indexes text of <= SLEN bytes for a level of total objects below
 * levels of arbitrary widths: memory safe, no failed assertion, and an accepted interleaving yields in-range entries */
#ifndef IDX_TOTAL
#define IDX_TOTAL 4
#endif
void hp_synth_process_indexes(void)
{
  struct verif_sstr *s = malloc(sizeof(*s)); struct hwloc_synthetic_indexes_s ind; unsigned long total = nondet_ulong(); unsigned len = nondet_unsigned(), i, nl = nondet_unsigned();
  sdata = malloc(sizeof(*sdata));
  __CPROVER_assume(s != 0 && sdata != 0 && total >= 1 && total <= IDX_TOTAL && len <= SLEN && nl >= 1 && nl <= 3);
  VERIF_GHOSTS();
  *s = nondet_sstr(); s->c[SLEN] = 0;
  __CPROVER_assume(s->c[len] == ' ' || s->c[len] == ')');      /* what hwloc_synthetic_parse_attrs hands over: the text ends at a blank or bracket */
  for (i = 0; i < len; i++) __CPROVER_assume(s->c[i] != ' ' && s->c[i] != ')' && s->c[i] != 0);
  /* nl levels above an arity-0 level: widths are products of non-zero arities, the last one is `total` */
  for (i = 0; i < 4; i++) {
    sdata->level[i].arity = i < nl ? nondet_unsigned() : 0;
    __CPROVER_assume(i >= nl || sdata->level[i].arity >= 1);
    sdata->level[i].attr.type = (hwloc_obj_type_t)nondet_int(); sdata->level[i].attr.depth = nondet_unsigned();
    sdata->level[i].totalwidth = i == 0 ? 1 : sdata->level[i - 1].totalwidth * sdata->level[i - 1].arity;
    __CPROVER_assume(sdata->level[i].totalwidth >= 1 && sdata->level[i].totalwidth <= total);
  }
  ind.string = s->c; ind.string_length = len; ind.array = (unsigned *)0; ind.next = 0;
  hwloc_synthetic_process_indexes(sdata, &ind, total, 0);
  if (ind.array && g_j < total)
    __CPROVER_assert(__CPROVER_r_ok(ind.array + g_j, sizeof(unsigned)), "an accepted index list has `total` readable entries");
  VERIF_CANARY();
}


/* hwloc_synthetic_process_indexes on the interleaving text "1*1:1*1:1*1" (IDX_LOOPS loops) where every number stands for
 * ANY value (the number parser returns an arbitrary value at the exact end position): memory safe, no failed assertion,
 * no division by zero, for every total <= IDX_TOTAL */
#ifndef IDX_LOOPS
#define IDX_LOOPS 3
#endif
void hp_synth_process_indexes_loops(void)
{
  static char text[4 * IDX_LOOPS + 1]; struct hwloc_synthetic_indexes_s ind; unsigned long total = nondet_ulong(); unsigned k;
  static struct hwloc_synthetic_backend_data_s sdata_obj;
  sdata = &sdata_obj;
  __CPROVER_assume(total >= 1 && total <= IDX_TOTAL);
  VERIF_GHOSTS();
  for (k = 0; k < IDX_LOOPS; k++) { text[4 * k] = '1'; text[4 * k + 1] = '*'; text[4 * k + 2] = '1'; text[4 * k + 3] = k + 1 < IDX_LOOPS ? ':' : ')'; }
  text[4 * IDX_LOOPS] = 0;
  sdata->level[0].arity = 0;
  ind.string = text; ind.string_length = 4 * IDX_LOOPS - 1; ind.array = (unsigned *)0; ind.next = 0;
  hwloc_synthetic_process_indexes(sdata, &ind, total, 0);
  if (ind.array && g_j < total)
    __CPROVER_assert(ind.array[g_j] < total, "an accepted interleaving yields in-range indexes");
  VERIF_CANARY();
}
