/* Plain harnesses for distances.c (C13): explicit small states, every obligation of the property sentence
 * it decides is an assertion after the call.  NB = maximal number of objects of a matrix, ND = maximal
 * number of structures in the topology's list.  Arrays are allocated with their exact size so that an
 * access one element past the end is a refuted pointer check. */
#ifndef ND
#define ND 3
#endif
#define NV (NB * NB)

static struct hwloc_topology topo;
static struct hwloc_obj dobj[NB];
static char subt[NB][10];
static int isw[NB];                 /* ghost: dobj[k] is an NVSwitch port (subtype is exactly "NVSwitch") */

static void mk_objects_(int subtypes)
{
  unsigned k, j;
  for (k = 0; k < NB; k++) {
    int c = nondet_int();
    dobj[k].type = (hwloc_obj_type_t)nondet_int(); __CPROVER_assume(dobj[k].type >= 0 && dobj[k].type < HWLOC_OBJ_TYPE_MAX);   /* type invariant of objects */
    dobj[k].os_index = nondet_unsigned(); dobj[k].gp_index = nondet_ulong();
    if (c == 0 || !subtypes) { dobj[k].subtype = (char *)0; isw[k] = 0; }
    else if (c == 1) { dobj[k].subtype = (char *)"NVSwitch"; isw[k] = 1; }
    else {
      /* any other string of <= 9 characters (prefixes and extensions of "NVSwitch" included) */
      for (j = 0; j < 9; j++) subt[k][j] = nondet_char();
      subt[k][9] = 0;
      dobj[k].subtype = subt[k];
      isw[k] = subt[k][0] == 'N' && subt[k][1] == 'V' && subt[k][2] == 'S' && subt[k][3] == 'w' && subt[k][4] == 'i' && subt[k][5] == 't'
            && subt[k][6] == 'c' && subt[k][7] == 'h' && subt[k][8] == 0;
    }
  }
}

#define mk_objects() mk_objects_(1)

/* ------------------------------------------------------------------ a user-side matrix (struct hwloc_distances_s) */
static hwloc_obj_t *objs, oobjs[NB];
static hwloc_uint64_t *vals, ovals[NV];
static struct hwloc_distances_s D;
#define N NB                   /* one job per matrix size: indexes a*N+b stay linear */
#ifndef VMAX
#define VMAX 0xffffffffffffffffUL
#endif

static void mk_matrix(int allow_null, unsigned minn)
{
  unsigned k;
  (void)minn;
  objs = malloc(N * sizeof(*objs)); vals = malloc(N * N * sizeof(*vals));
  __CPROVER_assume(objs != 0 && vals != 0);
  for (k = 0; k < NB; k++) { oobjs[k] = (allow_null && nondet_bool()) ? (hwloc_obj_t)0 : &dobj[k]; if (k < N) objs[k] = oobjs[k]; }
  for (k = 0; k < NV; k++) { ovals[k] = nondet_ulong(); __CPROVER_assume(ovals[k] <= VMAX); if (k < N * N) vals[k] = ovals[k]; }
  D.nbobjs = N; D.objs = objs; D.values = vals; D.kind = nondet_ulong();
}
#define SW(i) ((i) < N && oobjs[i] != 0 && isw[i])

static void unchanged(unsigned a, unsigned b, unsigned long okind)
{
  __CPROVER_assert(D.nbobjs == N && D.kind == okind && D.objs == objs && D.values == vals, "a refused transform leaves nbobjs, kind and the arrays in place");
  if (a < N) __CPROVER_assert(objs[a] == oobjs[a], "a refused transform leaves every object in place");
  if (a < N && b < N) __CPROVER_assert(vals[a * N + b] == ovals[a * N + b], "a refused transform leaves every value in place");
}

/* (1) dispatch: flags / attribute / unknown transformation are refused with EINVAL and change nothing */
void hp_hwloc_distances_transform_dispatch(void)
{
  unsigned a = nondet_unsigned(), b = nondet_unsigned(); unsigned long flags = nondet_ulong(), okind; int tr = nondet_int(), r; int attr;
  void *ap = nondet_bool() ? (void *)&attr : (void *)0;
  mk_objects(); mk_matrix(1, 0); okind = D.kind;
  __CPROVER_assume(flags != 0 || ap != 0 || tr < 0 || tr > 3);
  errno = 0;
  r = hwloc_distances_transform(&topo, &D, (enum hwloc_distances_transform_e)tr, ap, flags);
  __CPROVER_assert(r == -1 && errno == EINVAL, "non-zero flags, non-NULL attribute or unknown transformation: -1/EINVAL");
  unchanged(a, b, okind);
  VERIF_CANARY();
}

/* (2) REMOVE_NULL: keeps exactly the non-NULL objects, in order, with the exact sub-matrix */
void hp_hwloc_distances_transform_remove_null(void)
{
  unsigned a = nondet_unsigned(), b = nondet_unsigned(), k, nk = 0, na = 0, nb = 0; unsigned long okind; int r, het = 0, have = 0; hwloc_obj_type_t t0 = HWLOC_OBJ_TYPE_NONE;
  mk_objects(); mk_matrix(1, 0); okind = D.kind;
  for (k = 0; k < NB; k++) if (k < N && oobjs[k]) { if (k < a) na++; if (k < b) nb++; nk++; if (!have) { t0 = oobjs[k]->type; have = 1; } else if (oobjs[k]->type != t0) het = 1; }
  errno = 0;
  r = hwloc_distances_transform(&topo, &D, HWLOC_DISTANCES_TRANSFORM_REMOVE_NULL, (void *)0, 0);
  if (nk < 2) { __CPROVER_assert(r == -1 && errno == EINVAL, "fewer than 2 objects left: -1/EINVAL"); unchanged(a, b, okind); }
  else {
    __CPROVER_assert(r == 0 && D.nbobjs == nk && D.objs == objs && D.values == vals, "REMOVE_NULL succeeds and reports the number of non-NULL objects");
    if (a < N && oobjs[a]) __CPROVER_assert(objs[na] == oobjs[a], "every non-NULL object is kept, in order");
    if (a < N && b < N && oobjs[a] && oobjs[b]) __CPROVER_assert(vals[na * nk + nb] == ovals[a * N + b], "the value between two kept objects is kept (exact sub-matrix)");
    __CPROVER_assert((D.kind & ~(unsigned long)HWLOC_DISTANCES_KIND_HETEROGENEOUS_TYPES) == (okind & ~(unsigned long)HWLOC_DISTANCES_KIND_HETEROGENEOUS_TYPES), "the other kind bits are kept");
    if (nk != N) __CPROVER_assert(((D.kind & HWLOC_DISTANCES_KIND_HETEROGENEOUS_TYPES) != 0) == het, "HETEROGENEOUS_TYPES iff the kept object types differ");
    else __CPROVER_assert(D.kind == okind, "nothing removed: kind unchanged");
  }
  VERIF_CANARY();
}

/* (3) MERGE_SWITCH_PORTS: every non-switch object and the values between them are kept; the first port stays and
 * gets the links of all ports; the other ports go; no port at all => ENOENT, nothing changes */
void hp_hwloc_distances_transform_merge_switch_ports(void)
{
  unsigned a = nondet_unsigned(), b = nondet_unsigned(), k, first = NB, nk = 0, na = 0, nb = 0, nf = 0; unsigned long okind; int r;
  hwloc_uint64_t row = 0, col = 0;
  mk_objects(); mk_matrix(1, 0); okind = D.kind;
  for (k = 0; k < NB; k++) if (SW(k) && first == NB) first = k;
#define KEPT(i) ((i) < N && oobjs[i] != 0 && (!isw[i] || (i) == first))
  for (k = 0; k < NB; k++) if (KEPT(k)) { if (k < a) na++; if (k < b) nb++; if (k < first) nf++; nk++; }
  for (k = 0; k < NB; k++) if (SW(k) && a < N) { row += ovals[a * N + k]; col += ovals[k * N + a]; }
  errno = 0;
  r = hwloc_distances_transform(&topo, &D, HWLOC_DISTANCES_TRANSFORM_MERGE_SWITCH_PORTS, (void *)0, 0);
  if (first == NB) { __CPROVER_assert(r == -1 && errno == ENOENT, "no switch port: -1/ENOENT"); unchanged(a, b, okind); }
  else if (nk < 2) __CPROVER_assert(r == -1 && errno == EINVAL, "fewer than 2 objects left after merging: -1/EINVAL");
  else {
    __CPROVER_assert(r == 0 && D.nbobjs == nk && D.objs == objs && D.values == vals, "MERGE_SWITCH_PORTS succeeds: non-switch objects + the first port remain");
    if (KEPT(a)) __CPROVER_assert(objs[na] == oobjs[a], "every non-switch object (and the first port) is kept, in order");
    if (KEPT(a) && KEPT(b) && !isw[a] && !isw[b]) __CPROVER_assert(vals[na * nk + nb] == ovals[a * N + b], "the value between two non-switch objects is kept");
    if (KEPT(a) && !isw[a]) {
      __CPROVER_assert(vals[na * nk + nf] == row, "object -> merged port = sum over all ports");
      __CPROVER_assert(vals[nf * nk + na] == col, "merged port -> object = sum over all ports");
    }
  }
  VERIF_CANARY();
}

/* (4) TRANSITIVE_CLOSURE: objects untouched; a pair of distinct non-switch objects gains min(bw to the switch, bw from the switch) */
void hp_hwloc_distances_transform_transitive_closure(void)
{
  unsigned a = nondet_unsigned(), b = nondet_unsigned(), k; unsigned long okind; int r;
  hwloc_uint64_t a2sw = 0, sw2b = 0;
  mk_objects(); mk_matrix(1, 0); okind = D.kind;
  for (k = 0; k < NB; k++) if (SW(k) && a < N && b < N) { a2sw += ovals[a * N + k]; sw2b += ovals[k * N + b]; }
  errno = 0;
  r = hwloc_distances_transform(&topo, &D, HWLOC_DISTANCES_TRANSFORM_TRANSITIVE_CLOSURE, (void *)0, 0);
  __CPROVER_assert(r == 0 && D.nbobjs == N && D.kind == okind && D.objs == objs && D.values == vals, "TRANSITIVE_CLOSURE succeeds and keeps nbobjs and kind");
  if (a < N) __CPROVER_assert(objs[a] == oobjs[a], "every object is kept");
  if (a < N && b < N) {
    if (a != b && !SW(a) && !SW(b)) __CPROVER_assert(vals[a * N + b] == ovals[a * N + b] + (a2sw > sw2b ? sw2b : a2sw), "non-switch pair: direct + min(to the switch, from the switch)");
    else __CPROVER_assert(vals[a * N + b] == ovals[a * N + b], "diagonal and switch rows/columns are kept");
  }
  VERIF_CANARY();
}

/* (5) LINKS: only bandwidth matrices; diagonal 0; every value divided by the smallest positive one, or ENOENT */
void hp_hwloc_distances_transform_links(void)
{
  unsigned a = nondet_unsigned(), b = nondet_unsigned(), i, j; unsigned long okind; int r, indiv = 0;
  hwloc_uint64_t div = 0;
  mk_objects_(0); mk_matrix(1, 0); okind = D.kind;
  for (i = 0; i < NB; i++) for (j = 0; j < NB; j++) if (i < N && j < N && i != j) { hwloc_uint64_t v = ovals[i * N + j]; if (v && (!div || v < div)) div = v; }
  for (i = 0; i < NB; i++) for (j = 0; j < NB; j++) if (i < N && j < N && i != j && div && ovals[i * N + j] % div) indiv = 1;
  errno = 0;
  r = hwloc_distances_transform(&topo, &D, HWLOC_DISTANCES_TRANSFORM_LINKS, (void *)0, 0);
  if (!(okind & HWLOC_DISTANCES_KIND_VALUE_BANDWIDTH)) { __CPROVER_assert(r == -1 && errno == EINVAL, "not a bandwidth matrix: -1/EINVAL"); unchanged(a, b, okind); }
  else if (indiv) __CPROVER_assert(r == -1 && errno == ENOENT, "some value is not a multiple of the smallest positive one: -1/ENOENT");
  else {
    __CPROVER_assert(r == 0 && D.nbobjs == N && D.kind == okind && D.objs == objs && D.values == vals, "LINKS succeeds and keeps nbobjs and kind");
    if (a < N) __CPROVER_assert(objs[a] == oobjs[a], "every object is kept");
    if (a < N) __CPROVER_assert(vals[a * N + a] == 0, "values on the diagonal are 0");
    if (a < N && b < N && a != b) __CPROVER_assert(vals[a * N + b] == (div ? ovals[a * N + b] / div : 0), "every value is divided by the smallest positive value");
  }
  VERIF_CANARY();
}

/* ------------------------------------------------------------------ internal structures (struct hwloc_internal_distances_s) */
static char dname[ND][3];
struct verif_dist_shadow { unsigned n; hwloc_uint64_t idx[NB], val[NV]; hwloc_obj_type_t ty[NB]; hwloc_obj_t obj[NB]; unsigned long kind; unsigned iflags, id; hwloc_obj_type_t ut; char *name; int has_types; };

/* one committed structure with exact-size heap arrays; n objects (2 <= n <= NB, concrete per call site) */
static struct hwloc_internal_distances_s *mk_dist(unsigned n, unsigned slot, struct verif_dist_shadow *sh, int objs_valid)
{
  struct hwloc_internal_distances_s *d = malloc(sizeof(*d)); unsigned k; int het = nondet_bool();
  __CPROVER_assume(d != 0);
  d->nbobjs = n; d->kind = nondet_ulong(); d->id = nondet_unsigned(); d->iflags = objs_valid ? HWLOC_INTERNAL_DIST_FLAG_OBJS_VALID : (nondet_unsigned() & HWLOC_INTERNAL_DIST_FLAG_OBJS_VALID);
  d->indexes = malloc(n * sizeof(*d->indexes)); d->objs = malloc(n * sizeof(*d->objs)); d->values = malloc(n * n * sizeof(*d->values));
  d->different_types = het ? malloc(n * sizeof(*d->different_types)) : (hwloc_obj_type_t *)0;
  __CPROVER_assume(d->indexes != 0 && d->objs != 0 && d->values != 0 && (!het || d->different_types != 0));
  d->unique_type = het ? HWLOC_OBJ_TYPE_NONE : (hwloc_obj_type_t)nondet_int();
  __CPROVER_assume(het || (d->unique_type >= 0 && d->unique_type < HWLOC_OBJ_TYPE_MAX));
  if (nondet_bool()) d->name = (char *)0;
  else { d->name = malloc(3); __CPROVER_assume(d->name != 0); d->name[0] = nondet_char(); d->name[1] = nondet_char(); d->name[2] = 0; }
  for (k = 0; k < n; k++) {
    d->indexes[k] = nondet_ulong(); d->objs[k] = nondet_bool() ? &dobj[k % NB] : (hwloc_obj_t)0;
    if (het) { d->different_types[k] = (hwloc_obj_type_t)nondet_int(); __CPROVER_assume(d->different_types[k] >= 0 && d->different_types[k] < HWLOC_OBJ_TYPE_MAX); }
  }
  for (k = 0; k < n * n; k++) d->values[k] = nondet_ulong();
  d->next = d->prev = (struct hwloc_internal_distances_s *)0;
  if (sh) {
    sh->n = n; sh->kind = d->kind; sh->iflags = d->iflags; sh->id = d->id; sh->ut = d->unique_type; sh->name = d->name; sh->has_types = het;
    for (k = 0; k < n; k++) { sh->idx[k] = d->indexes[k]; sh->obj[k] = d->objs[k]; sh->ty[k] = het ? d->different_types[k] : d->unique_type; }
    for (k = 0; k < n * n; k++) sh->val[k] = d->values[k];
  }
  (void)slot;
  return d;
}

/* (6) refresh_one: cached object pointers are re-resolved; objects that disappeared are removed with their
 * rows/columns (exact sub-matrix, indexes and types compacted alike); fewer than 2 survivors => dropped (-1) */
void hp_hwloc_internal_distances_refresh_one(void)
{
  struct verif_dist_shadow sh; struct hwloc_internal_distances_s *d; hwloc_obj_t exp[NB];
  unsigned a = nondet_unsigned(), b = nondet_unsigned(), k, ns = 0, na = 0, nb = 0; int r, os;
  mk_objects_(0);
  d = mk_dist(NB, 0, &sh, 0);
  os = (sh.ut == HWLOC_OBJ_PU || sh.ut == HWLOC_OBJ_NUMANODE);
  /* the topology: entry k of the structure still exists or not */
  verif_lut_n = NB;
  for (k = 0; k < NB; k++) { verif_lut[k].type = sh.ty[k]; verif_lut[k].index = sh.idx[k]; verif_lut[k].obj = nondet_bool() ? &dobj[k] : (hwloc_obj_t)0; }
  for (k = 0; k < NB; k++) { exp[k] = verif_lookup(sh.ty[k], sh.idx[k], os); if (exp[k]) { if (k < a) na++; if (k < b) nb++; ns++; } }
  verif_lookups = 0;
  r = hwloc_internal_distances_refresh_one(&topo, d);
  if (sh.iflags & HWLOC_INTERNAL_DIST_FLAG_OBJS_VALID) {
    __CPROVER_assert(r == 0 && verif_lookups == 0 && d->nbobjs == NB && d->iflags == sh.iflags, "valid cache: nothing to do");
    if (a < NB) __CPROVER_assert(d->objs[a] == sh.obj[a] && d->indexes[a] == sh.idx[a], "valid cache: objects and indexes untouched");
    if (a < NB && b < NB) __CPROVER_assert(d->values[a * NB + b] == sh.val[a * NB + b], "valid cache: values untouched");
  } else if (ns < 2) __CPROVER_assert(r == -1, "fewer than 2 objects survive: the structure is to be dropped");
  else {
    __CPROVER_assert(r == 0 && d->nbobjs == ns, "refreshed: nbobjs is the number of surviving objects");
    __CPROVER_assert(d->iflags == (sh.iflags | HWLOC_INTERNAL_DIST_FLAG_OBJS_VALID), "refreshed: the cache is marked valid, other flags kept");
    __CPROVER_assert(d->kind == sh.kind && d->id == sh.id && d->unique_type == sh.ut && d->name == sh.name, "refreshed: name, kind, id and unique type kept");
    if (a < NB && exp[a]) {
      __CPROVER_assert(d->objs[na] == exp[a], "refreshed: every surviving object, in order, as the look-up returns it");
      __CPROVER_assert(d->indexes[na] == sh.idx[a], "refreshed: the index of a surviving object follows it");
      if (sh.has_types) __CPROVER_assert(d->different_types[na] == sh.ty[a], "refreshed: the type of a surviving object follows it");
    }
    if (a < NB && b < NB && exp[a] && exp[b]) __CPROVER_assert(d->values[na * ns + nb] == sh.val[a * NB + b], "refreshed: exact sub-matrix for the surviving objects");
  }
  VERIF_CANARY();
}

/* ------------------------------------------------------------------ the topology's list */
static struct hwloc_internal_distances_s *L[ND];
static struct verif_dist_shadow S[ND];
static unsigned NL;
#ifndef NG
#define NG 2          /* objects per structure in the list harnesses */
#endif
static void mk_list(void)
{
  unsigned k;
  NL = nondet_unsigned(); __CPROVER_assume(NL <= ND);
  topo.first_dist = topo.last_dist = (struct hwloc_internal_distances_s *)0;
  for (k = 0; k < ND; k++) if (k < NL) {
    L[k] = mk_dist(NG, k, &S[k], 1);
    L[k]->prev = topo.last_dist;
    if (topo.last_dist) topo.last_dist->next = L[k]; else topo.first_dist = L[k];
    topo.last_dist = L[k];
  }
  topo.state = nondet_int(); topo.adopted_shmem_addr = (void *)0; topo.next_dist_id = nondet_unsigned();
}
/* the list is exactly the structures keep[k] != 0, in order, with consistent back links */
static void check_list(const int *keep)
{
  struct hwloc_internal_distances_s *cur = topo.first_dist, *prev = (struct hwloc_internal_distances_s *)0; unsigned k;
  for (k = 0; k < ND; k++) if (k < NL && keep[k]) {
    __CPROVER_assert(cur == L[k], "list: exactly the structures that were not removed, in order");
    __CPROVER_assert(cur->prev == prev, "list: back links consistent");
    prev = cur; cur = cur->next;
  }
  __CPROVER_assert(cur == 0 && topo.last_dist == prev, "list: ends after the last kept structure, last_dist points to it");
}

/* (7) get / get_by_type / get_by_name / get_by_depth: exactly the matching structures, in order, as copies; *nr = number of matches */
void hp_hwloc_distances_get(void)
{
  struct hwloc_distances_s *out[ND + 1], *sentinel = (struct hwloc_distances_s *)&topo;
  unsigned nr_in = nondet_unsigned(), nr, k, nm = 0, slot = nondet_unsigned(), g = nondet_unsigned(), midx[ND + 1]; int which = nondet_int(), r, depth = nondet_int();
  unsigned long kind = nondet_ulong(), flags = nondet_ulong(); hwloc_obj_type_t type = (hwloc_obj_type_t)nondet_int(); char qn[3]; const char *qname = (const char *)0;
  int match[ND];
  mk_objects_(0); mk_list();
  __CPROVER_assume(nr_in <= ND + 1 && which >= 0 && which <= 3);
  for (k = 0; k <= ND; k++) out[k] = sentinel;
  qn[0] = nondet_char(); qn[1] = nondet_char(); qn[2] = 0;
  verif_depth_type = (hwloc_obj_type_t)nondet_int();
  if (which == 0) type = HWLOC_OBJ_TYPE_NONE;
  if (which == 2) { qname = qn; type = HWLOC_OBJ_TYPE_NONE; kind = HWLOC_DISTANCES_KIND_FROM_OS | HWLOC_DISTANCES_KIND_FROM_USER | HWLOC_DISTANCES_KIND_VALUE_LATENCY | HWLOC_DISTANCES_KIND_VALUE_BANDWIDTH | HWLOC_DISTANCES_KIND_VALUE_HOPS | HWLOC_DISTANCES_KIND_HETEROGENEOUS_TYPES; }
  if (which == 3) type = verif_depth_type;
  /* the filter, written from the documentation of hwloc_distances_get*() */
  for (k = 0; k < ND; k++) {
    unsigned long kf = kind & (HWLOC_DISTANCES_KIND_FROM_OS | HWLOC_DISTANCES_KIND_FROM_USER), km = kind & (HWLOC_DISTANCES_KIND_VALUE_LATENCY | HWLOC_DISTANCES_KIND_VALUE_BANDWIDTH | HWLOC_DISTANCES_KIND_VALUE_HOPS);
    match[k] = k < NL
      && (!qname || (S[k].name && S[k].name[0] == qn[0] && (qn[0] == 0 || (S[k].name[1] == qn[1]))))
      && (type == HWLOC_OBJ_TYPE_NONE || type == S[k].ut)
      && (!kf || (kf & S[k].kind)) && (!km || (km & S[k].kind));
    if (match[k]) midx[nm++] = k;
  }
  nr = nr_in; errno = 0;
  if (which == 0) r = hwloc_distances_get(&topo, &nr, out, kind, flags);
  else if (which == 1) r = hwloc_distances_get_by_type(&topo, type, &nr, out, kind, flags);
  else if (which == 2) r = hwloc_distances_get_by_name(&topo, qname, &nr, out, flags);
  else r = hwloc_distances_get_by_depth(&topo, depth, &nr, out, kind, flags);
  if (flags || !(topo.state & HWLOC_TOPOLOGY_STATE_IS_LOADED) || (which == 3 && verif_depth_type == (hwloc_obj_type_t)-1)) {
    __CPROVER_assert(r == -1 && errno == EINVAL && nr == nr_in, "flags, unloaded topology or invalid depth: -1/EINVAL, *nr untouched");
    if (slot <= ND) __CPROVER_assert(out[slot] == sentinel, "refused: the caller's array is untouched");
  } else if (r == 0) {
    __CPROVER_assert(nr == nm, "*nr reports the number of matching structures, even when the array is smaller");
    if (slot < nm && slot < nr_in) {
      struct verif_dist_shadow *s = &S[midx[slot]];
      __CPROVER_assert(out[slot] != 0 && out[slot] != sentinel, "slot below min(*nr, matches): a structure is returned");
      __CPROVER_assert(out[slot]->nbobjs == s->n && out[slot]->kind == s->kind, "returned structure: nbobjs and kind of the matching structure (in list order)");
      if (g < s->n) __CPROVER_assert(out[slot]->objs[g] == s->obj[g], "returned structure: same objects");
      if (g < s->n * s->n) __CPROVER_assert(out[slot]->values[g] == s->val[g], "returned structure: same values");
      __CPROVER_assert(out[slot]->objs != L[midx[slot]]->objs && out[slot]->values != L[midx[slot]]->values, "returned structure: private copies of the arrays");
      __CPROVER_assert((HWLOC_DISTANCES_CONTAINER(out[slot]))->id == s->id, "returned structure: tagged with the id of the matching structure");
    }
    if (slot >= nm && slot < nr_in) __CPROVER_assert(out[slot] == 0, "slots between the number of matches and the caller's *nr are NULL");
    if (slot >= nr_in && slot <= ND) __CPROVER_assert(out[slot] == sentinel, "slots beyond the caller's *nr are untouched");
  } else __CPROVER_assert(r == -1 && nr == nr_in, "only an allocation failure may fail a valid query; *nr untouched");
  { int keep[ND]; for (k = 0; k < ND; k++) keep[k] = 1; check_list(keep); }
  VERIF_CANARY();
}

/* (8) removals delete exactly the targeted structures */
void hp_hwloc_distances_remove_by_depth(void)
{
  int keep[ND], r, depth = nondet_int(); unsigned k;
  mk_objects_(0); mk_list();
  verif_depth_type = (hwloc_obj_type_t)nondet_int();
  for (k = 0; k < ND; k++) keep[k] = 1;
  errno = 0;
  r = hwloc_distances_remove_by_depth(&topo, depth);
  if (!(topo.state & HWLOC_TOPOLOGY_STATE_IS_LOADED) || verif_depth_type == (hwloc_obj_type_t)-1) __CPROVER_assert(r == -1 && errno == EINVAL, "unloaded topology or invalid depth: -1/EINVAL");
  else { __CPROVER_assert(r == 0, "remove_by_depth succeeds"); for (k = 0; k < ND; k++) if (k < NL && S[k].ut == verif_depth_type) keep[k] = 0; }
  check_list(keep);
  VERIF_CANARY();
}
void hp_hwloc_distances_release_remove(void)
{
  int keep[ND], r; unsigned k, victim = ND; struct hwloc_distances_container_s *cont; unsigned qid = nondet_unsigned();
  mk_objects_(0); mk_list();
  /* ids of committed structures are pairwise distinct (they come from the next_dist_id counter) */
  for (k = 0; k < ND; k++) { unsigned e; for (e = 0; e < k; e++) if (k < NL) __CPROVER_assume(S[k].id != S[e].id); }
  /* a user copy as hwloc_distances_get_one() allocates it */
  cont = malloc(sizeof(*cont)); __CPROVER_assume(cont != 0);
  cont->id = qid; cont->distances.nbobjs = NG; cont->distances.kind = nondet_ulong();
  cont->distances.objs = malloc(NG * sizeof(hwloc_obj_t)); cont->distances.values = malloc(NG * NG * sizeof(hwloc_uint64_t));
  __CPROVER_assume(cont->distances.objs != 0 && cont->distances.values != 0);
  for (k = 0; k < ND; k++) { keep[k] = 1; if (k < NL && S[k].id == qid) victim = k; }
  errno = 0;
  r = hwloc_distances_release_remove(&topo, &cont->distances);
  if (victim == ND) __CPROVER_assert(r == -1 && errno == EINVAL, "no committed structure has this id: -1/EINVAL, nothing removed");
  else { __CPROVER_assert(r == 0, "release_remove succeeds"); keep[victim] = 0; }
  check_list(keep);
  VERIF_CANARY();
}
void hp_hwloc_distances_remove(void)
{
  int keep[ND], r; unsigned k;
  mk_objects_(0); mk_list();
  for (k = 0; k < ND; k++) keep[k] = 1;
  errno = 0;
  r = hwloc_distances_remove(&topo);
  if (!(topo.state & HWLOC_TOPOLOGY_STATE_IS_LOADED)) __CPROVER_assert(r == -1 && errno == EINVAL, "unloaded topology: -1/EINVAL");
  else { __CPROVER_assert(r == 0, "remove succeeds"); for (k = 0; k < ND; k++) keep[k] = 0; }
  check_list(keep);
  VERIF_CANARY();
}

/* (9) add_create + add_values + add_commit: what is added is what is stored (and, by (7), what is returned);
 * invalid kinds, flags, fewer than 2 (non-NULL) objects are rejected and leave the list unchanged */
void hp_hwloc_distances_add(void)
{
  hwloc_obj_t uobjs[NB]; hwloc_uint64_t uvals[NV]; char un[3]; const char *name = nondet_bool() ? un : (const char *)0;
  unsigned long kind = nondet_ulong(), cflags = nondet_ulong(), vflags = nondet_ulong(), mflags = nondet_ulong();
  unsigned k, g = nondet_unsigned(), oldid, nnull = 0; int keep[ND], r, het = 0; void *h; struct hwloc_internal_distances_s *nd;
  unsigned long kf = kind & (HWLOC_DISTANCES_KIND_FROM_OS | HWLOC_DISTANCES_KIND_FROM_USER), km = kind & (HWLOC_DISTANCES_KIND_VALUE_LATENCY | HWLOC_DISTANCES_KIND_VALUE_BANDWIDTH | HWLOC_DISTANCES_KIND_VALUE_HOPS);
  unsigned long kall = HWLOC_DISTANCES_KIND_FROM_OS | HWLOC_DISTANCES_KIND_FROM_USER | HWLOC_DISTANCES_KIND_VALUE_LATENCY | HWLOC_DISTANCES_KIND_VALUE_BANDWIDTH | HWLOC_DISTANCES_KIND_VALUE_HOPS | HWLOC_DISTANCES_KIND_HETEROGENEOUS_TYPES;
  mk_objects_(0); mk_list(); topo.grouping = 0;      /* grouping (hwloc__groups_by_distances) is not part of this harness */
  for (k = 0; k < ND; k++) keep[k] = 1;
  un[0] = nondet_char(); un[1] = nondet_char(); un[2] = 0;
  for (k = 0; k < NB; k++) { uobjs[k] = nondet_bool() ? (hwloc_obj_t)0 : &dobj[k]; if (!uobjs[k]) nnull++; else if (uobjs[k]->type != dobj[0].type || !uobjs[0]) het = 1; }
  for (k = 0; k < NV; k++) uvals[k] = nondet_ulong();
  oldid = topo.next_dist_id; errno = 0;
  h = hwloc_distances_add_create(&topo, name, kind, cflags);
  if (!(topo.state & HWLOC_TOPOLOGY_STATE_IS_LOADED) || (kind & ~kall) || (kf & (kf - 1)) || (km & (km - 1)) || cflags) {
    __CPROVER_assert(h == 0 && errno == EINVAL, "unloaded topology, invalid kind word or flags: NULL/EINVAL");
    check_list(keep); return;
  }
  if (!h) { check_list(keep); return; }     /* allocation failure */
  errno = 0;
  r = hwloc_distances_add_values(&topo, h, NB, uobjs, uvals, vflags);
  if (vflags || NB < 2 || nnull) {
    /* the copies of the caller's arrays are allocated before the flags are looked at: an allocation failure (errno left at 0 by
     * the verifier's malloc) may come first */
    __CPROVER_assert(r == -1 && (errno == EINVAL || errno == 0), "flags, fewer than 2 objects or a NULL object: refused, EINVAL");
    if (nnull) __CPROVER_assert(errno == EINVAL, "a NULL object is refused with EINVAL before anything is allocated");
    check_list(keep); return;
  }
  if (r < 0) { check_list(keep); return; }  /* allocation failure */
  __CPROVER_assert(r == 0, "add_values succeeds");
  errno = 0;
  r = hwloc_distances_add_commit(&topo, h, mflags);
  if (mflags & ~(unsigned long)(HWLOC_DISTANCES_ADD_FLAG_GROUP | HWLOC_DISTANCES_ADD_FLAG_GROUP_INACCURATE)) {
    __CPROVER_assert(r == -1 && errno == EINVAL, "unknown commit flags: -1/EINVAL");
    check_list(keep); return;
  }
  __CPROVER_assert(r == 0, "commit succeeds");
  nd = topo.last_dist;
  __CPROVER_assert(nd == (struct hwloc_internal_distances_s *)h && nd->next == 0, "committed at the tail of the list");
  __CPROVER_assert(nd->prev == (NL ? L[NL - 1] : 0) && (NL ? L[NL - 1]->next == nd : topo.first_dist == nd), "linked after the previous tail");
  topo.last_dist = nd->prev; if (nd->prev) nd->prev->next = 0; else topo.first_dist = 0;     /* look at the rest of the list */
  check_list(keep);
  __CPROVER_assert(nd->nbobjs == NB && nd->id == oldid && topo.next_dist_id == oldid + 1, "stored: number of objects, fresh id");
  __CPROVER_assert(nd->kind == (kind | (het ? HWLOC_DISTANCES_KIND_HETEROGENEOUS_TYPES : 0)), "stored: the caller's kind plus HETEROGENEOUS_TYPES iff the object types differ");
  __CPROVER_assert(!(nd->iflags & HWLOC_INTERNAL_DIST_FLAG_NOT_COMMITTED) && (nd->iflags & HWLOC_INTERNAL_DIST_FLAG_OBJS_VALID), "stored: committed, cached objects valid");
  __CPROVER_assert(name ? (nd->name != 0 && nd->name != name && nd->name[0] == un[0] && (un[0] == 0 || nd->name[1] == un[1])) : nd->name == 0, "stored: a private copy of the name");
  __CPROVER_assert(nd->objs != uobjs && nd->values != uvals, "stored: private copies of the caller's arrays");
  __CPROVER_assert(nd->unique_type == (het ? HWLOC_OBJ_TYPE_NONE : dobj[0].type) && (het ? nd->different_types != 0 : nd->different_types == 0), "stored: unique type, or per-object types when they differ");
  if (g < NB) {
    __CPROVER_assert(nd->objs[g] == uobjs[g], "stored: the caller's objects, in order");
    __CPROVER_assert(nd->indexes[g] == ((!het && (dobj[0].type == HWLOC_OBJ_PU || dobj[0].type == HWLOC_OBJ_NUMANODE)) ? (hwloc_uint64_t)uobjs[g]->os_index : uobjs[g]->gp_index), "stored: os_index for PU/NUMA matrices, gp_index otherwise");
    if (het) __CPROVER_assert(nd->different_types[g] == uobjs[g]->type, "stored: per-object types");
  }
  if (g < NV) __CPROVER_assert(nd->values[g] == uvals[g], "stored: the caller's values");
  VERIF_CANARY();
}

/* (C12) hwloc_internal_distances_dup: the duplicate list has the same structures in the same order with consistent links,
 * equal scalars and array contents, an invalidated object cache, and shares NO storage with the source (every array and
 * name is a distinct allocation); the source list is untouched; on allocation failure -1 */
static struct hwloc_topology topo2;
void hp_hwloc_internal_distances_dup(void)
{
  int r; unsigned k, j; struct hwloc_internal_distances_s *cur, *prev = (struct hwloc_internal_distances_s *)0; int keep[ND];
  VERIF_GHOSTS();
  mk_list();
  topo2.tma = (struct hwloc_tma *)0; topo2.first_dist = topo2.last_dist = (struct hwloc_internal_distances_s *)0; topo2.next_dist_id = nondet_unsigned();
  r = hwloc_internal_distances_dup(&topo2, &topo);
  __CPROVER_assert(r == 0 || r == -1, "returns 0 or -1");
  for (k = 0; k < ND; k++) keep[k] = 1;
  check_list(keep);                                        /* the source list is untouched */
  for (k = 0; k < ND; k++) if (k < NL) {
    __CPROVER_assert(L[k]->nbobjs == S[k].n && L[k]->kind == S[k].kind && L[k]->id == S[k].id && L[k]->iflags == S[k].iflags && L[k]->name == S[k].name, "source structure unchanged");
    for (j = 0; j < NG * NG; j++) __CPROVER_assert(L[k]->values[j] == S[k].val[j], "source values unchanged");
  }
  if (r == 0) {
    __CPROVER_assert(topo2.next_dist_id == topo.next_dist_id, "the id counter is copied");
    cur = topo2.first_dist;
    for (k = 0; k < ND; k++) if (k < NL) {
      __CPROVER_assert(cur != 0 && cur != L[k], "duplicate list: one fresh structure per source structure, in order");
      __CPROVER_assert(cur->prev == prev, "duplicate list: back links consistent");
      __CPROVER_assert(cur->nbobjs == S[k].n && cur->kind == S[k].kind && cur->id == S[k].id && cur->unique_type == S[k].ut, "duplicate: same nbobjs, kind, id, type");
      __CPROVER_assert(cur->iflags == (S[k].iflags & ~HWLOC_INTERNAL_DIST_FLAG_OBJS_VALID), "duplicate: object cache marked invalid, other flags kept");
      __CPROVER_assert(cur->indexes != L[k]->indexes && cur->values != L[k]->values && cur->objs != L[k]->objs, "duplicate: arrays are not shared with the source");
      __CPROVER_assert(S[k].name ? (cur->name != 0 && cur->name != S[k].name && cur->name[0] == S[k].name[0] && (!S[k].name[0] || (cur->name[1] == S[k].name[1] && (!S[k].name[1] || cur->name[2] == 0)))) : cur->name == 0, "duplicate: private copy of the name");
      __CPROVER_assert(S[k].has_types ? (cur->different_types != 0 && cur->different_types != L[k]->different_types) : cur->different_types == 0, "duplicate: private copy of the per-object types");
      for (j = 0; j < NG; j++) {
        __CPROVER_assert(cur->indexes[j] == S[k].idx[j] && cur->objs[j] == 0, "duplicate: same indexes, cached objects cleared");
        if (S[k].has_types) __CPROVER_assert(cur->different_types[j] == S[k].ty[j], "duplicate: same per-object types");
      }
      for (j = 0; j < NG * NG; j++) __CPROVER_assert(cur->values[j] == S[k].val[j], "duplicate: same values");
      prev = cur; cur = cur->next;
    }
    __CPROVER_assert(cur == 0 && topo2.last_dist == prev, "duplicate list: ends after the last structure, last_dist points to it");
  }
  VERIF_CANARY();
}
