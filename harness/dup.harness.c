/* Harnesses for hwloc__duplicate_object / hwloc__topology_dup (C12 leaves; allocations succeed: hwloc does not handle
 * allocation failure on the dup path).  Sets are abstract records (see the driver): "duplicate of" is a link to the source set. */
struct hwloc_obj nondet_obj(void);
union hwloc_obj_attr_u nondet_attr(void);
struct hwloc_topology nondet_topology(void);
static struct hwloc_bitmap_s osets[4];
static union hwloc_obj_attr_u oattr;
static char oname[3], osub[3];
static struct hwloc_info_s opairs[2]; static char in0[2] = "a", iv0[2] = "1", in1[2] = "b", iv1[2] = "2";

static void mk_src_obj(struct hwloc_obj *src, hwloc_obj_type_t type, int depth, unsigned lidx)
{
  *src = nondet_obj(); oattr = nondet_attr();
  src->type = type; src->depth = depth; src->logical_index = lidx; src->attr = &oattr;
  if (type == HWLOC_OBJ_NUMANODE) { oattr.numanode.page_types_len = 0; oattr.numanode.page_types = 0; }
  oname[0] = nondet_char(); oname[1] = nondet_char(); oname[2] = 0; osub[0] = nondet_char(); osub[1] = nondet_char(); osub[2] = 0;
  src->name = nondet_bool() ? oname : (char *)0; src->subtype = nondet_bool() ? osub : (char *)0;
  osets[0].live = osets[1].live = osets[2].live = osets[3].live = 1;
  src->cpuset = &osets[0]; src->complete_cpuset = &osets[1]; src->nodeset = &osets[2]; src->complete_nodeset = &osets[3];
  opairs[0].name = in0; opairs[0].value = iv0; opairs[1].name = in1; opairs[1].value = iv1;
  src->infos.array = opairs; src->infos.count = nondet_unsigned(); __CPROVER_assume(src->infos.count <= 2); src->infos.allocated = 2;
  src->arity = 0; src->memory_arity = 0; src->io_arity = 0; src->misc_arity = 0;
  src->first_child = src->memory_first_child = src->io_first_child = src->misc_first_child = (hwloc_obj_t)0; src->children = (hwloc_obj_t *)0;
}

static void check_obj_copy(const struct hwloc_obj *n, const struct hwloc_obj *src, const struct hwloc_obj *shadow)
{
  __CPROVER_assert(n != src, "the duplicate is another object");
  __CPROVER_assert(n->type == shadow->type && n->os_index == shadow->os_index && n->gp_index == shadow->gp_index && n->logical_index == shadow->logical_index
                   && n->depth == shadow->depth && n->sibling_rank == shadow->sibling_rank && n->symmetric_subtree == shadow->symmetric_subtree
                   && n->total_memory == shadow->total_memory, "type, os_index, gp_index, logical_index, depth, sibling_rank, symmetric_subtree, total_memory are copied");
  __CPROVER_assert(n->userdata == shadow->userdata, "the userdata pointer is copied verbatim");
  __CPROVER_assert(n->attr != src->attr && n->attr != 0 && (g_j >= sizeof(union hwloc_obj_attr_u) || ((const char *)n->attr)[g_j * (g_j < sizeof(union hwloc_obj_attr_u))] == ((const char *)src->attr)[g_j * (g_j < sizeof(union hwloc_obj_attr_u))]), "attributes: a private union with the same bytes");
  __CPROVER_assert(n->cpuset != src->cpuset && n->cpuset->dup_of == src->cpuset && n->complete_cpuset->dup_of == src->complete_cpuset
                   && n->nodeset->dup_of == src->nodeset && n->complete_nodeset->dup_of == src->complete_nodeset, "the four sets are duplicates of the source's four sets, in the right places");
  __CPROVER_assert(shadow->name ? (n->name != 0 && n->name != shadow->name && n->name[0] == oname[0] && (!oname[0] || (n->name[1] == oname[1] && (!oname[1] || n->name[2] == 0)))) : n->name == 0, "name: private copy or NULL");
  __CPROVER_assert(shadow->subtype ? (n->subtype != 0 && n->subtype != shadow->subtype && n->subtype[0] == osub[0] && (!osub[0] || (n->subtype[1] == osub[1] && (!osub[1] || n->subtype[2] == 0)))) : n->subtype == 0, "subtype: private copy or NULL");
  __CPROVER_assert(n->infos.count == shadow->infos.count && (n->infos.count == 0 || (n->infos.array != opairs && n->infos.array[0].name != in0 && n->infos.array[0].name[0] == 'a' && n->infos.array[0].value[0] == '1')), "infos: private copies in order");
  __CPROVER_assert(n->arity == 0 && n->memory_arity == 0 && n->io_arity == 0 && n->misc_arity == 0, "arities copied");
  /* the source is untouched */
  __CPROVER_assert(src->type == shadow->type && src->os_index == shadow->os_index && src->gp_index == shadow->gp_index && src->name == shadow->name && src->cpuset == shadow->cpuset
                   && src->userdata == shadow->userdata && src->infos.array == shadow->infos.array && src->infos.count == shadow->infos.count && src->attr == shadow->attr, "the source object is untouched");
}

/* a childless object duplicated as the (pre-allocated) root of the new topology */
void hp_hwloc__duplicate_object_root(void)
{
  static struct hwloc_topology nt; static struct hwloc_obj src, shadow; static hwloc_obj_t lvl0[1]; static hwloc_obj_t *levels[1]; static unsigned nbobjs[1]; hwloc_obj_t newroot; int r;
  VERIF_GHOSTS();
  mk_src_obj(&src, HWLOC_OBJ_MACHINE, 0, 0); shadow = src;
  nt.tma = (struct hwloc_tma *)0; nt.next_gp_index = nondet_ulong(); nt.levels = levels; nt.level_nbobjects = nbobjs; levels[0] = lvl0; nbobjs[0] = 1; nt.nb_levels = 1; lvl0[0] = (hwloc_obj_t)0;
  newroot = hwloc_alloc_setup_object(&nt, HWLOC_OBJ_MACHINE, 0);        /* what hwloc_topology_setup_defaults() gives the new topology */
  __CPROVER_assume(newroot != 0);
  r = hwloc__duplicate_object(&nt, (hwloc_obj_t)0, newroot, &src);
  __CPROVER_assert(r == 0, "succeeds when allocations succeed");
  check_obj_copy(newroot, &src, &shadow);
  __CPROVER_assert(lvl0[0] == newroot, "placed in its level at its logical index");
  VERIF_CANARY();
}

/* hwloc__topology_dup of a loaded topology made of a single Machine object: every topology-level scalar and table is
 * copied, sets are duplicates, the support structures and the root are private copies, the three sub-duplications are each
 * called once on (new, old), and the source is untouched */
void hp_hwloc__topology_dup(void)
{
  static struct hwloc_topology old, oshadow; static struct hwloc_obj root, rshadow; static hwloc_obj_t lvl0[1]; static hwloc_obj_t *levels[2]; static unsigned nbobjs[2];
  static struct hwloc_topology_discovery_support sd; static struct hwloc_topology_cpubind_support sc; static struct hwloc_topology_membind_support sm; static struct hwloc_topology_misc_support ss;
  static struct hwloc_bitmap_s acs, ans;
  hwloc_topology_t new = (hwloc_topology_t)0; int r; unsigned k;
  VERIF_GHOSTS();
  old = nondet_topology();
  mk_src_obj(&root, HWLOC_OBJ_MACHINE, 0, 0); rshadow = root;
  old.tma = 0; old.levels = levels; old.level_nbobjects = nbobjs; levels[0] = lvl0; lvl0[0] = &root; nbobjs[0] = 1; nbobjs[1] = 0; levels[1] = 0; old.nb_levels = 1; old.nb_levels_allocated = 2;
  for (k = 0; k < HWLOC_NR_SLEVELS; k++) { old.slevels[k].nbobjs = 0; old.slevels[k].objs = 0; old.slevels[k].first = old.slevels[k].last = 0; }
  old.support.discovery = &sd; old.support.cpubind = &sc; old.support.membind = &sm; old.support.misc = &ss;
  acs.live = ans.live = 1; old.allowed_cpuset = &acs; old.allowed_nodeset = &ans;
  old.infos.array = opairs; old.infos.count = nondet_unsigned(); __CPROVER_assume(old.infos.count <= 2); old.infos.allocated = 2;
  old.machine_memory.local_memory = 0; old.machine_memory.page_types_len = 0; old.machine_memory.page_types = 0;
  old.adopted_shmem_addr = 0;
  oshadow = old;
  r = hwloc__topology_dup(&new, &old, (struct hwloc_tma *)0);
  if (!(oshadow.state & HWLOC_TOPOLOGY_STATE_IS_LOADED)) {
    __CPROVER_assert(r == -1 && verif_errno == EINVAL && new == 0, "a topology that is not loaded cannot be duplicated: EINVAL");
  } else {
    __CPROVER_assert(r == 0 && new != 0 && new != &old, "succeeds (allocations succeed) with another topology");
    __CPROVER_assert(new->flags == oshadow.flags && new->state == oshadow.state && new->pid == oshadow.pid && new->next_gp_index == oshadow.next_gp_index, "flags, state, pid and the gp_index counter are copied");
    __CPROVER_assert(new->type_filter[g_j % (HWLOC_OBJ_TYPE_MAX)] == oshadow.type_filter[g_j % (HWLOC_OBJ_TYPE_MAX)] && new->type_depth[g_j % (HWLOC_OBJ_TYPE_MAX)] == oshadow.type_depth[g_j % (HWLOC_OBJ_TYPE_MAX)], "type filters and type depths are copied");
    __CPROVER_assert(new->userdata_export_cb == oshadow.userdata_export_cb && new->userdata_import_cb == oshadow.userdata_import_cb && new->userdata_not_decoded == oshadow.userdata_not_decoded, "userdata callbacks are copied");
    __CPROVER_assert(new->nb_levels == 1 && new->levels != levels && new->levels[0] != lvl0 && new->level_nbobjects != nbobjs, "level tables are private");
    __CPROVER_assert(new->allowed_cpuset != &acs && new->allowed_cpuset->dup_of == &acs && new->allowed_nodeset->dup_of == &ans, "allowed sets are duplicates of the source's allowed sets");
    __CPROVER_assert(new->support.discovery != &sd && new->support.cpubind != &sc && new->support.membind != &sm && new->support.misc != &ss, "support structures are private");
    __CPROVER_assert((g_j >= sizeof(sc) || ((const char *)new->support.cpubind)[g_j * (g_j < sizeof(sc))] == ((const char *)&sc)[g_j * (g_j < sizeof(sc))])
                  && (g_j >= sizeof(sm) || ((const char *)new->support.membind)[g_j * (g_j < sizeof(sm))] == ((const char *)&sm)[g_j * (g_j < sizeof(sm))])
                  && (g_j >= sizeof(sd) || ((const char *)new->support.discovery)[g_j * (g_j < sizeof(sd))] == ((const char *)&sd)[g_j * (g_j < sizeof(sd))]), "support bits are copied");
    __CPROVER_assert(new->infos.count == oshadow.infos.count && (new->infos.count == 0 || new->infos.array != opairs), "topology infos: private copies");
    __CPROVER_assert(verif_dup_calls[0] == 1 && verif_dup_calls[1] == 1 && verif_dup_calls[2] == 1 && verif_dup_new[0] == new && verif_dup_old[0] == &old
                  && verif_dup_new[1] == new && verif_dup_old[1] == &old && verif_dup_new[2] == new && verif_dup_old[2] == &old, "distances, memory attributes and CPU kinds are each duplicated once from the source into the copy");
    __CPROVER_assert(new->modified == 0 && new->backends == 0 && new->adopted_shmem_addr == 0, "the copy is connected, has no backend and is not an adopted topology");
    check_obj_copy(new->levels[0][0], &root, &rshadow);
    __CPROVER_assert(old.flags == oshadow.flags && old.state == oshadow.state && old.next_gp_index == oshadow.next_gp_index && old.levels == levels && lvl0[0] == &root && old.allowed_cpuset == &acs && old.infos.array == opairs, "the source topology is untouched");
  }
  VERIF_CANARY();
}
