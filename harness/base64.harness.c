/* Bounded harnesses for base64.c: decode(encode(x)) == x with exact-size buffers, and memory safety of the
 * decoder on arbitrary strings.  Buffers are malloc'ed with their exact (concrete per job) size, so any access
 * outside is a bounds violation. */
#ifndef B64_N
#define B64_N 4
#endif
void hp_base64_roundtrip(void)
{
  const size_t n = B64_N, enclen = 4 * ((B64_N + 2) / 3);
  char *src = malloc(n ? n : 1), *enc = malloc(enclen + 1), *dec = malloc(n + 1);
  unsigned k = nondet_unsigned(); int r, d; size_t i;
  __CPROVER_assume(src && enc && dec);
  for (i = 0; i < n; i++) src[i] = nondet_char();
  r = hwloc_encode_to_base64(src, n, enc, enclen + 1);
  __CPROVER_assert(r == (int)enclen, "encoding needs 4*ceil(n/3) characters");
  __CPROVER_assert(enc[enclen] == 0, "encoded text is NUL-terminated");
  d = hwloc_decode_from_base64(enc, dec, n + 1);
  __CPROVER_assert(d == (int)n, "decoding returns the original length");
  if (k < n) __CPROVER_assert(dec[k] == src[k], "decoding returns the original bytes");
  /* a target that is one byte too small is refused without writing outside it */
  { char *small = malloc(enclen ? enclen : 1); __CPROVER_assume(small != 0);
    r = hwloc_encode_to_base64(src, n, small, enclen);
    __CPROVER_assert(r == -1, "too small a target is refused"); }
  VERIF_CANARY();
}
#ifndef B64_S
#define B64_S 6
#endif
#ifndef B64_T
#define B64_T 3
#endif
void hp_base64_decode_safe(void)
{
  char *s = malloc(B64_S + 1); const size_t tsz = B64_T; char *t; int r, usenull = nondet_bool(); size_t i; char guard = nondet_char();
  __CPROVER_assume(s != 0);
  for (i = 0; i < B64_S; i++) s[i] = nondet_char();
  s[B64_S] = 0;
  /* the target block has EXACTLY tsz bytes (concrete per job): any store beyond it is a bounds violation */
  t = usenull ? (char *)0 : malloc(tsz ? tsz : 1);
  __CPROVER_assume(usenull || t != 0);
  if (!usenull && !tsz) t[0] = guard;
  r = hwloc_decode_from_base64(s, t, tsz);
  __CPROVER_assert(r >= -1 && r <= (int)B64_S, "returns -1 or a length");
  __CPROVER_assert(usenull || r <= (int)tsz, "never reports more bytes than the target holds");
  if (!usenull && !tsz) __CPROVER_assert(t[0] == guard, "a zero-size target is not written");
  VERIF_CANARY();
}
