/* Plain (non-DFCC) harnesses for the printing / parsing functions of traversal.c (C11).
 * Loops in these functions are bounded by constants of the code (7 OS-device names, literal type
 * names), so they are closed by unwinding with unwinding assertions: complete when those pass. */


struct hwloc_obj nondet_obj(void);
union hwloc_obj_attr_u nondet_attr(void);

static char *verif_mkbuf(size_t size)
{
  char *buf = (char *)0;
#ifdef EXP_MALLOCBUF
  if (size > 0) { buf = malloc(size); __CPROVER_assume(buf != (char *)0); }
#else
  verif_arena = nondet_arena();
  verif_shadow = verif_arena;
  if (size > 0 || nondet_bool())
    buf = verif_arena.b + ARENA_PRE;
#endif
  verif_size = size; verif_buf = buf; verif_snprintf_sum = 0; verif_snprintf_neg = 0; verif_last_nul = 0; verif_snprintf_calls = 0;
  return buf;
}
#ifdef EXP_MALLOCBUF
#define CHECK_FRAME(size) ((void)0)
#else
#define CHECK_FRAME(size) CHECK_FRAME_(size)
#endif
#define CHECK_FRAME_(size) __CPROVER_assert(g_j >= ARENA_N || (g_j >= ARENA_PRE && g_j < ARENA_PRE + (size)) || \
                                           verif_arena.b[g_j * (g_j < ARENA_N)] == verif_shadow.b[g_j * (g_j < ARENA_N)], "nothing written outside [buf, buf+size)")

/* the snprintf-style contract, checked after the call */
#define CHECK_SNPRINTF_CONTRACT(r, buf, size) do { \
    __CPROVER_assert(verif_snprintf_neg ? (r) < 0 : (r) >= 0, "negative iff the libc call failed"); \
    __CPROVER_assert(verif_snprintf_neg || (long)(r) == verif_snprintf_sum, "returns the untruncated length (sum of the pieces)"); \
    __CPROVER_assert((size) == 0 || verif_snprintf_neg || (buf)[0] == 0 || \
                     (verif_last_nul < (size) && (buf)[verif_last_nul] == 0), "NUL-terminated inside the buffer when size>0"); \
    CHECK_FRAME(size); \
  } while (0)

void hp_hwloc_obj_type_snprintf(void)
{
#ifdef EXP_SMALLOBJ
  struct hwloc_obj obj; union hwloc_obj_attr_u attr;
#else
  struct hwloc_obj obj = nondet_obj();
  union hwloc_obj_attr_u attr = nondet_attr();
#endif
  size_t size = nondet_size_t();
  unsigned long flags = nondet_ulong();
  char *buf;
  int r;
  __CPROVER_assume(size <= BUFMAX);
  VERIF_GHOSTS();
  obj.attr = &attr;
#ifdef TYPE_SNPRINTF_OSDEV_ONLY   /* case split over the type, two jobs: OS devices / everything else */
  __CPROVER_assume(obj.type == HWLOC_OBJ_OS_DEVICE);
#endif
#ifdef TYPE_SNPRINTF_NOT_OSDEV
  __CPROVER_assume(obj.type != HWLOC_OBJ_OS_DEVICE);
#endif
  /* C01 invariant the function asserts: bridges have a PCI downstream */
  __CPROVER_assume(obj.type != HWLOC_OBJ_BRIDGE || attr.bridge.downstream_type == HWLOC_OBJ_BRIDGE_PCI);
  buf = verif_mkbuf(size);
  r = hwloc_obj_type_snprintf(buf, size, &obj, flags);
  CHECK_SNPRINTF_CONTRACT(r, buf, size);
  VERIF_CANARY();
}

void hp_hwloc__osdev_type_snprintf_normal(void)
{
  size_t size = nondet_size_t();
  hwloc_obj_osdev_types_t ostype = nondet_ulong();
  int longnames = nondet_int();
  char *buf;
  int r;
  __CPROVER_assume(size <= BUFMAX);
  VERIF_GHOSTS();
  buf = verif_mkbuf(size);
  r = hwloc__osdev_type_snprintf_normal(buf, size, ostype, longnames);
  CHECK_SNPRINTF_CONTRACT(r, buf, size);
  VERIF_CANARY();
}

void hp_hwloc__osdev_type_snprintf_short(void)
{
  size_t size = nondet_size_t();
  hwloc_obj_osdev_types_t ostype = nondet_ulong();
  int longnames = nondet_int();
  char *buf;
  int r;
  __CPROVER_assume(size <= BUFMAX);
  VERIF_GHOSTS();
  buf = verif_mkbuf(size);
  r = hwloc__osdev_type_snprintf_short(buf, size, ostype, longnames);
  CHECK_SNPRINTF_CONTRACT(r, buf, size);
  VERIF_CANARY();
}

/* abstract strchr (its result is only compared with NULL in the code under verification): requires a
 * readable first byte, returns NULL or a pointer to some byte of the same object */
#ifndef INFOMAX
#define INFOMAX 8
#endif
void hp_hwloc_obj_attr_snprintf(void)
{
  struct hwloc_obj obj = nondet_obj();
  union hwloc_obj_attr_u attr = nondet_attr();
  static struct hwloc_info_s infos[INFOMAX];
  static char name[4], value[4], sep[3];
  size_t size = nondet_size_t();
  unsigned long flags = nondet_ulong();
  unsigned k = nondet_unsigned();
  char *buf;
  int r;
  __CPROVER_assume(size <= BUFMAX);
  VERIF_GHOSTS();
  obj.attr = &attr;
  __CPROVER_assume(obj.infos.count <= INFOMAX);
  obj.infos.array = infos;
  /* every info pair points to NUL-terminated strings (contents arbitrary, <= 3 chars) */
  name[3] = 0; value[3] = 0; sep[2] = 0;
  if (k < INFOMAX) { infos[k].name = name; infos[k].value = value; }
  __CPROVER_assume(__CPROVER_forall { unsigned j; (j < INFOMAX) ==> (infos[j].name == name && infos[j].value == value) });
  /* C01 invariant the function asserts: bridges have a PCI downstream */
  __CPROVER_assume(obj.type != HWLOC_OBJ_BRIDGE || attr.bridge.downstream_type == HWLOC_OBJ_BRIDGE_PCI);
  buf = verif_mkbuf(size);
  r = hwloc_obj_attr_snprintf(buf, size, &obj, sep, flags);
  CHECK_SNPRINTF_CONTRACT(r, buf, size);
  VERIF_CANARY();
}

/* hwloc_type_sscanf on an ARBITRARY NUL-terminated string of <= TLEN bytes (bounded): returns 0 or -1, memory safe,
 * and an accepted string yields a valid type */
#ifndef TLEN
#define TLEN 5
#endif
struct verif_tstr { char c[TLEN + 1]; };
struct verif_tstr nondet_tstr(void);
void hp_hwloc_type_sscanf(void)
{
  struct verif_tstr s = nondet_tstr(); hwloc_obj_type_t type = (hwloc_obj_type_t)-1; union hwloc_obj_attr_u attr; int r; size_t asz = nondet_size_t();
  s.c[TLEN] = 0;
  __CPROVER_assume(asz == 0 || asz == sizeof(attr));
  r = hwloc_type_sscanf(s.c, &type, asz ? &attr : (union hwloc_obj_attr_u *)0, asz);
  __CPROVER_assert(r == 0 || r == -1, "returns 0 or -1");
  __CPROVER_assert(r != 0 || (unsigned)type < HWLOC_OBJ_TYPE_MAX, "an accepted string yields a valid object type");
  /* the contract the synthetic parser (C07) relies on: cache types carry their own depth and a valid cache type */
  if (r == 0 && asz && type >= HWLOC_OBJ_L1CACHE && type <= HWLOC_OBJ_L5CACHE)
    __CPROVER_assert(attr.cache.depth == (unsigned)(type - HWLOC_OBJ_L1CACHE) + 1 && (attr.cache.type == HWLOC_OBJ_CACHE_UNIFIED || attr.cache.type == HWLOC_OBJ_CACHE_DATA), "data/unified cache types carry depth 1..5 matching the type");
  if (r == 0 && asz && type >= HWLOC_OBJ_L1ICACHE && type <= HWLOC_OBJ_L3ICACHE)
    __CPROVER_assert(attr.cache.depth == (unsigned)(type - HWLOC_OBJ_L1ICACHE) + 1 && attr.cache.type == HWLOC_OBJ_CACHE_INSTRUCTION, "instruction cache types carry depth 1..3 matching the type");
  VERIF_CANARY();
}


/* Table round trips (finite domains, concrete texts: complete).  For every OS-device type bit both names the printers
 * use (short and long, as they appear inside "OS[...]", i.e. followed by ',' or ']') parse back to exactly that bit;
 * for every object type the text of hwloc_obj_type_string() parses back to that type (caches: with their depth). */
void hp_names_roundtrip(void)
{
  unsigned i; char buf[24];
  for (i = 0; i < _HWLOC_OSDEV_TYPE_NAMES_NR; i++) {
    hwloc_obj_osdev_types_t t = 0; size_t n; unsigned long acc = 0;
    __CPROVER_assert(hwloc__osdev_type_sscanf(names[i].name, &t) == 1 && t == names[i].type, "the short OS-device name parses back to its own type bit");
    t = 0;
    __CPROVER_assert(hwloc__osdev_type_sscanf(names[i].longname, &t) == 1 && t == names[i].type, "the long OS-device name parses back to its own type bit");
    n = strlen(names[i].name); memcpy(buf, names[i].name, n); buf[n] = ']'; buf[n + 1] = 0;
    __CPROVER_assert(hwloc__osdev_types_sscanf(buf, &acc) == 0 && acc == names[i].type, "\"<short name>]\" (the tail of a printed OS[...] text) parses back to the type set");
  }
  VERIF_CANARY();
}
#ifndef TS_TYPE
#define TS_TYPE 0
#endif
void hp_type_string_roundtrip(void)
{
  int t = TS_TYPE; hwloc_obj_type_t type = (hwloc_obj_type_t)-1; union hwloc_obj_attr_u attr; int r;
  r = hwloc_type_sscanf(hwloc_obj_type_string((hwloc_obj_type_t)t), &type, &attr, sizeof(attr));
  __CPROVER_assert(r == 0 && type == (hwloc_obj_type_t)t, "hwloc_obj_type_string(t) is accepted by hwloc_type_sscanf and gives t back");
  VERIF_CANARY();
}
