/* Guard / error-path frame contracts (C19 EPERM guards, C08 last sentence, C02 allow clause).
 * Every contract has the frame `assigns(verif_errno [+ ghost query log])`: DFCC checks EVERY store the
 * function makes against it, so "fails ... without touching the topology / the mapping" is proved as a
 * frame condition over all memory, not sampled. */
#ifndef VERIF_GUARD_CONTRACTS_H
#define VERIF_GUARD_CONTRACTS_H
#define REQ __CPROVER_requires
#define ENS __CPROVER_ensures
#define ASG __CPROVER_assigns
#define RET __CPROVER_return_value
#define TOPO(t)    __CPROVER_is_fresh(t, sizeof(struct hwloc_topology))
#define LOADED(t)  (((t)->state & HWLOC_TOPOLOGY_STATE_IS_LOADED) != 0)
#define ADOPTED(t) (LOADED(t) && (t)->adopted_shmem_addr != NULL)
#define QLOG       Q_n, __CPROVER_object_whole(Q_a), __CPROVER_object_whole(Q_b)
#define BMP(s)     __CPROVER_is_fresh(s, sizeof(struct hwloc_bitmap_s))

/* "never called" contracts: the callee is replaced by a contract whose precondition is false, so DFCC
 * proves that the guarded entry point returns before reaching any of these calls (and their bodies, with
 * their unbounded loops, stay out of the query). */
#define NEVER REQ(0) ASG()

#ifdef GUARD_TOPOLOGY
/* assumed contract of the object destructor (not in the mapping: the object was never inserted) */
void hwloc_free_unlinked_object(hwloc_obj_t obj)
REQ(1) ASG() ENS(1)
;
hwloc_obj_t hwloc_alloc_setup_object(hwloc_topology_t topology, hwloc_obj_type_t type, unsigned os_index) NEVER ;
struct hwloc_obj *hwloc__insert_object_by_cpuset(struct hwloc_topology *topology, hwloc_obj_t root, hwloc_obj_t obj, const char *reason) NEVER ;
void hwloc_insert_object_by_parent(struct hwloc_topology *topology, hwloc_obj_t parent, hwloc_obj_t obj) NEVER ;
int hwloc_topology_reconnect(hwloc_topology_t topology, unsigned long flags) NEVER ;
int hwloc__reconnect(struct hwloc_topology *topology, unsigned long flags) NEVER ;
int hwloc_obj_add_children_sets(hwloc_obj_t obj) NEVER ;

hwloc_obj_t hwloc_topology_alloc_group_object(struct hwloc_topology *topology)
REQ(TOPO(topology) && ADOPTED(topology))
ASG(verif_errno)
ENS(RET == NULL && verif_errno == EPERM)
;
int hwloc_topology_free_group_object(struct hwloc_topology *topology, hwloc_obj_t obj)
REQ(TOPO(topology) && ADOPTED(topology))
ASG(verif_errno)
ENS(RET == -1 && verif_errno == EPERM)
;
hwloc_obj_t hwloc_topology_insert_group_object(struct hwloc_topology *topology, hwloc_obj_t obj)
REQ(TOPO(topology) && ADOPTED(topology))
ASG(verif_errno)
ENS(RET == NULL && verif_errno == EPERM)
;
hwloc_obj_t hwloc_topology_insert_misc_object(struct hwloc_topology *topology, hwloc_obj_t parent, const char *name)
REQ(TOPO(topology) && ADOPTED(topology))
ASG(verif_errno)
ENS(RET == NULL)      /* refused: EPERM, or EINVAL when Misc objects are filtered out (checked first) */
ENS(verif_errno == EPERM || (verif_errno == EINVAL && topology->type_filter[HWLOC_OBJ_MISC] == HWLOC_TYPE_FILTER_KEEP_NONE))
;

#define RESTRICT_ALL (HWLOC_RESTRICT_FLAG_REMOVE_CPULESS | HWLOC_RESTRICT_FLAG_ADAPT_MISC | HWLOC_RESTRICT_FLAG_ADAPT_IO \
                      | HWLOC_RESTRICT_FLAG_BYNODESET | HWLOC_RESTRICT_FLAG_REMOVE_MEMLESS)
#define RESTRICT_BAD_FLAGS(f) (((f) & ~(unsigned long)RESTRICT_ALL) \
      || (((f) & HWLOC_RESTRICT_FLAG_BYNODESET) && ((f) & HWLOC_RESTRICT_FLAG_REMOVE_CPULESS)) \
      || (!((f) & HWLOC_RESTRICT_FLAG_BYNODESET) && ((f) & HWLOC_RESTRICT_FLAG_REMOVE_MEMLESS)))
/* q_case 1: adopted topology => EPERM.  q_case 2: unknown or inconsistent flags, or a set that does not
 * intersect the allowed set => EINVAL.  In both cases nothing but errno is assigned. */
int hwloc_topology_restrict(struct hwloc_topology *topology, hwloc_const_bitmap_t set, unsigned long flags)
REQ(TOPO(topology) && LOADED(topology))
REQ(q_case == 1 || q_case == 2)
REQ(q_case == 1 ==> topology->adopted_shmem_addr != NULL)
REQ(q_case == 2 ==> (topology->adopted_shmem_addr == NULL && BMP(set) && BMP(topology->allowed_cpuset) && BMP(topology->allowed_nodeset)
                     && Q_n == 0 && (RESTRICT_BAD_FLAGS(flags) || !F_intersects_1)))
ASG(verif_errno, QLOG)
ENS(RET == -1)
ENS(q_case == 1 ==> verif_errno == EPERM)
ENS(q_case == 2 ==> verif_errno == EINVAL)
ENS((q_case == 2 && !RESTRICT_BAD_FLAGS(flags)) ==> (Q_n == 1 && Q_a[0] == set
     && Q_b[0] == ((flags & HWLOC_RESTRICT_FLAG_BYNODESET) ? topology->allowed_nodeset : topology->allowed_cpuset)))
;

/* hwloc_topology_allow: whenever it fails the allowed sets are unchanged (C02: EINVAL leaves the topology
 * untouched); on success only the allowed sets change. */
#define ROOT(t) ((t)->levels[0][0])
#define ALLOW_OK(t) (LOADED(t) && ((t)->flags & HWLOC_TOPOLOGY_FLAG_INCLUDE_DISALLOWED))
/* the intersects query (a,b) was made / its (ghost) result */
#define QHAS(a, b)  ((Q_n >= 1 && Q_a[0] == (a) && Q_b[0] == (b)) || (Q_n >= 2 && Q_a[1] == (a) && Q_b[1] == (b)))
#define QRES(a, b)  ((Q_n >= 1 && Q_a[0] == (a) && Q_b[0] == (b)) ? F_intersects_1 : F_intersects_2)
/* the OTHER set was given, checked first and rejected (then this one need not be looked at) */
#define QRES_FALSE_FIRST(a, b, given) ((given) && Q_n == 1 && Q_a[0] == (a) && Q_b[0] == (b) && !F_intersects_1)
static int verif_get_allowed_resources(hwloc_topology_t topology)
{
  topology->allowed_cpuset->version++; topology->allowed_nodeset->version++;
  return nondet_int();
}
int (*verif_keep_get_allowed)(hwloc_topology_t) = verif_get_allowed_resources;   /* address taken: a candidate for the hook call */
int hwloc_topology_allow(struct hwloc_topology *topology, hwloc_const_cpuset_t cpuset, hwloc_const_nodeset_t nodeset, unsigned long flags)
REQ(TOPO(topology))
REQ(__CPROVER_is_fresh(topology->levels, sizeof(hwloc_obj_t *)) && __CPROVER_is_fresh(topology->levels[0], sizeof(hwloc_obj_t))
    && __CPROVER_is_fresh(topology->levels[0][0], sizeof(struct hwloc_obj)))
REQ(BMP(topology->allowed_cpuset) && BMP(topology->allowed_nodeset))
REQ(BMP(ROOT(topology)->cpuset) && BMP(ROOT(topology)->nodeset) && BMP(ROOT(topology)->complete_cpuset) && BMP(ROOT(topology)->complete_nodeset))
REQ(cpuset == NULL || BMP(cpuset))
REQ(nodeset == NULL || BMP(nodeset))
REQ(topology->binding_hooks.get_allowed_resources == NULL || topology->binding_hooks.get_allowed_resources == verif_get_allowed_resources)
REQ(Q_n == 0)
ASG(verif_errno, QLOG, topology->allowed_cpuset->version, topology->allowed_nodeset->version)
ENS(RET == 0 || RET == -1)
ENS(RET == -1 ==> (topology->allowed_cpuset->version == __CPROVER_old(topology->allowed_cpuset->version)
                   && topology->allowed_nodeset->version == __CPROVER_old(topology->allowed_nodeset->version)))
ENS((flags & ~(unsigned long)(HWLOC_ALLOW_FLAG_ALL | HWLOC_ALLOW_FLAG_LOCAL_RESTRICTIONS | HWLOC_ALLOW_FLAG_CUSTOM)) ==> (RET == -1 && verif_errno == EINVAL))
ENS((!LOADED(topology) || !(topology->flags & HWLOC_TOPOLOGY_FLAG_INCLUDE_DISALLOWED)) ==> (RET == -1 && verif_errno == EINVAL))
/* CUSTOM: a given set must intersect the corresponding ROOT set (order of the two queries is free) */
ENS((ALLOW_OK(topology) && flags == HWLOC_ALLOW_FLAG_CUSTOM && cpuset != NULL && !QRES_FALSE_FIRST(ROOT(topology)->nodeset, nodeset, nodeset != NULL))
    ==> QHAS(ROOT(topology)->cpuset, cpuset))
ENS((ALLOW_OK(topology) && flags == HWLOC_ALLOW_FLAG_CUSTOM && cpuset != NULL && QHAS(ROOT(topology)->cpuset, cpuset) && !QRES(ROOT(topology)->cpuset, cpuset))
    ==> (RET == -1 && verif_errno == EINVAL))
ENS((ALLOW_OK(topology) && flags == HWLOC_ALLOW_FLAG_CUSTOM && nodeset != NULL && !QRES_FALSE_FIRST(ROOT(topology)->cpuset, cpuset, cpuset != NULL))
    ==> QHAS(ROOT(topology)->nodeset, nodeset))
ENS((ALLOW_OK(topology) && flags == HWLOC_ALLOW_FLAG_CUSTOM && nodeset != NULL && QHAS(ROOT(topology)->nodeset, nodeset) && !QRES(ROOT(topology)->nodeset, nodeset))
    ==> (RET == -1 && verif_errno == EINVAL))
/* ALL and LOCAL_RESTRICTIONS take no set */
ENS((ALLOW_OK(topology) && (flags == HWLOC_ALLOW_FLAG_ALL || flags == HWLOC_ALLOW_FLAG_LOCAL_RESTRICTIONS) && (cpuset != NULL || nodeset != NULL))
    ==> (RET == -1 && verif_errno == EINVAL))
ENS((ALLOW_OK(topology) && flags == HWLOC_ALLOW_FLAG_ALL && cpuset == NULL && nodeset == NULL) ==> RET == 0)
;
#endif

#ifdef GUARD_DISTANCES
void hwloc_internal_distances_destroy(hwloc_topology_t topology) NEVER ;
void *hwloc_backend_distances_add_create(hwloc_topology_t topology, const char *name, unsigned long kind, unsigned long flags) NEVER ;
int hwloc_distances_remove(hwloc_topology_t topology)
REQ(TOPO(topology) && ADOPTED(topology))
ASG(verif_errno)
ENS(RET == -1 && verif_errno == EPERM)
;
int hwloc_distances_remove_by_depth(hwloc_topology_t topology, int depth)
REQ(TOPO(topology) && ADOPTED(topology))
ASG(verif_errno)
ENS(RET == -1 && verif_errno == EPERM)
;
/* q_case 1: adopted => EPERM (C19).  q_case 2 (C13): a kind word with unknown bits, or more than one FROM_ bit, or more
 * than one MEANS_ bit, is rejected with EINVAL before anything is created; frame = {errno} in both cases. */
#define POP2(x) (__builtin_popcountl(x) > 1)
#define BAD_KIND(k) (((k) & ~(unsigned long)HWLOC_DISTANCES_KIND_ALL) || POP2((k) & HWLOC_DISTANCES_KIND_FROM_ALL) || POP2((k) & HWLOC_DISTANCES_KIND_VALUE_ALL))
void * hwloc_distances_add_create(hwloc_topology_t topology, const char *name, unsigned long kind, unsigned long flags)
REQ(TOPO(topology) && LOADED(topology))
REQ(q_case == 1 || q_case == 2)
REQ(q_case == 1 ==> topology->adopted_shmem_addr != NULL)
REQ(q_case == 2 ==> (topology->adopted_shmem_addr == NULL && BAD_KIND(kind)))
ASG(verif_errno)
ENS(RET == NULL)
ENS(q_case == 1 ==> verif_errno == EPERM)
ENS(q_case == 2 ==> verif_errno == EINVAL)
;
#endif

#ifdef GUARD_DIFF
static int hwloc_apply_diff_one(hwloc_topology_t topology, hwloc_topology_diff_t diff, unsigned long flags) NEVER ;

/* C16, "-N and roll back": hwloc_apply_diff_one replaced by a LOGGING contract (declared on a second symbol and used with
 * --replace-call-with-contract hwloc_apply_diff_one/verif_apply_one): every call is appended to the ghost log, and the call
 * number ap_fail_call (a ghost, any value) is the one that fails.  What one entry does to an object is not part of this clause. */
/* the log: up to 6 calls, one scalar pair per call (scalar slots keep the frame of each call exact) */
unsigned ap_n, ap_fail_call;
hwloc_topology_diff_t ap_d0, ap_d1, ap_d2, ap_d3, ap_d4, ap_d5; unsigned long ap_f0, ap_f1, ap_f2, ap_f3, ap_f4, ap_f5;
#define AP_SLOT(k, d, f) ENS(__CPROVER_old(ap_n) == (k) ? ((d) == diff && (f) == flags) : ((d) == __CPROVER_old(d) && (f) == __CPROVER_old(f)))
static int verif_apply_one(hwloc_topology_t topology, hwloc_topology_diff_t diff, unsigned long flags)
REQ(ap_n < 6)
ASG(ap_n, ap_d0, ap_d1, ap_d2, ap_d3, ap_d4, ap_d5, ap_f0, ap_f1, ap_f2, ap_f3, ap_f4, ap_f5)
ENS(ap_n == __CPROVER_old(ap_n) + 1)
AP_SLOT(0, ap_d0, ap_f0) AP_SLOT(1, ap_d1, ap_f1) AP_SLOT(2, ap_d2, ap_f2) AP_SLOT(3, ap_d3, ap_f3) AP_SLOT(4, ap_d4, ap_f4) AP_SLOT(5, ap_d5, ap_f5)
ENS(RET == 0 || RET == -1)
ENS((RET == -1) == (__CPROVER_old(ap_n) == ap_fail_call))
;
#define AP_D(i) ((i) == 0 ? ap_d0 : (i) == 1 ? ap_d1 : (i) == 2 ? ap_d2 : (i) == 3 ? ap_d3 : (i) == 4 ? ap_d4 : ap_d5)
#define AP_F(i) ((i) == 0 ? ap_f0 : (i) == 1 ? ap_f1 : (i) == 2 ? ap_f2 : (i) == 3 ? ap_f3 : (i) == 4 ? ap_f4 : ap_f5)
/* lists of 0..3 entries */
#define E1 diff
#define E2 (diff->generic.next)
#define E3 (diff->generic.next->generic.next)
#define DFRESH(p) __CPROVER_is_fresh(p, sizeof(union hwloc_topology_diff_u))
#define LEN(d) ((d) == NULL ? 0u : E2 == NULL ? 1u : E3 == NULL ? 2u : 3u)
#define ENTRY(i) ((i) == 0 ? E1 : (i) == 1 ? E2 : E3)
int hwloc_topology_diff_apply__rollback(hwloc_topology_t topology, hwloc_topology_diff_t diff, unsigned long flags)
REQ(TOPO(topology) && LOADED(topology) && topology->adopted_shmem_addr == NULL)
REQ(flags == 0 || flags == HWLOC_TOPOLOGY_DIFF_APPLY_REVERSE)
REQ(diff == NULL || (DFRESH(diff) && (E2 == NULL || (DFRESH(E2) && (E3 == NULL || (DFRESH(E3) && E3->generic.next == NULL))))))
REQ(ap_n == 0 && g_j < 3)
ASG(verif_errno, ap_n, ap_d0, ap_d1, ap_d2, ap_d3, ap_d4, ap_d5, ap_f0, ap_f1, ap_f2, ap_f3, ap_f4, ap_f5)
/* every entry applies: 0, each entry applied once, in order, with the caller's flags */
ENS(ap_fail_call >= LEN(diff) ==> (RET == 0 && ap_n == LEN(diff)))
ENS((ap_fail_call >= LEN(diff) && g_j < LEN(diff)) ==> (AP_D(g_j) == ENTRY(g_j) && AP_F(g_j) == flags))
/* entry N = ap_fail_call+1 fails: -N, EINVAL, entries 1..N-1 re-applied with the reversed flag, nothing beyond N touched */
ENS(ap_fail_call < LEN(diff) ==> (RET == -(int)(ap_fail_call + 1) && verif_errno == EINVAL && ap_n == 2 * ap_fail_call + 1))
ENS((ap_fail_call < LEN(diff) && g_j <= ap_fail_call) ==> (AP_D(g_j) == ENTRY(g_j) && AP_F(g_j) == flags))
ENS((ap_fail_call < LEN(diff) && g_j < ap_fail_call) ==> (AP_D(ap_fail_call + 1 + g_j) == ENTRY(g_j)
                                                         && AP_F(ap_fail_call + 1 + g_j) == (flags ^ HWLOC_TOPOLOGY_DIFF_APPLY_REVERSE)))
;
/* q_case 1: adopted => EPERM (C19).  q_case 2 (C16): unknown apply flags => EINVAL; no entry is applied, frame = {errno}. */
int hwloc_topology_diff_apply(hwloc_topology_t topology, hwloc_topology_diff_t diff, unsigned long flags)
REQ(TOPO(topology) && LOADED(topology))
REQ(q_case == 1 || q_case == 2)
REQ(q_case == 1 ==> topology->adopted_shmem_addr != NULL)
REQ(q_case == 2 ==> (topology->adopted_shmem_addr == NULL && (flags & ~(unsigned long)HWLOC_TOPOLOGY_DIFF_APPLY_REVERSE)))
ASG(verif_errno)
ENS(RET == -1)
ENS(q_case == 1 ==> verif_errno == EPERM)
ENS(q_case == 2 ==> verif_errno == EINVAL)
;
#endif
#endif
