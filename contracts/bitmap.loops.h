/* Loop contracts for /repo/hwloc/bitmap.c, keyed by the HWLOC_VERIF_LOOP anchors.
 * Invariants speak about the ghost word g_k (verif_prelude.h): "words below the
 * cursor already have their final value at g_k, words at or above it still have
 * the value they had at loop entry". */
#ifndef VERIF_BITMAP_LOOPS_H
#define VERIF_BITMAP_LOOPS_H
#include "bitmap.spec.h"

#ifdef VERIF_NO_LOOP_CONTRACTS   /* bounded fallback: loops are unwound instead */
#define LI(...)
#define LA(...)
#define LD(...)
#else
#define LI __CPROVER_loop_invariant
#define LA __CPROVER_assigns
#define LD __CPROVER_decreases
#endif

/* --- hwloc_bitmap_realloc_by_ulongs: for(i=count; i<needed; i++) ulongs[i] = tail */
#define HWLOC_VERIF_LOOP_hwloc_bitmap_realloc_by_ulongs_1 \
  LA(i, __CPROVER_object_whole(set->ulongs)) \
  LI(set->ulongs_count <= i && i <= needed_count) \
  LI(g_k < set->ulongs_count ==> set->ulongs[g_k] == LEW(set, g_k)) \
  LI((g_k >= set->ulongs_count && g_k < i) ==> set->ulongs[g_k] == TAILW(set)) \
  LD(needed_count - i)

#define HWLOC_VERIF_LOOP_hwloc_bitmap__zero_1 \
  LA(i, __CPROVER_object_whole(set->ulongs)) \
  LI(i <= set->ulongs_count) \
  LI(g_k < i ==> set->ulongs[g_k] == ZEROW) \
  LD(set->ulongs_count - i)

#define HWLOC_VERIF_LOOP_hwloc_bitmap__fill_1 \
  LA(i, __CPROVER_object_whole(set->ulongs)) \
  LI(i <= set->ulongs_count) \
  LI(g_k < i ==> set->ulongs[g_k] == FULLW) \
  LD(set->ulongs_count - i)

/* --- or/and/andnot/xor: first loop combines the common prefix */
#define COMB_LOOP1(OP) \
  LA(i, __CPROVER_object_whole(res->ulongs)) \
  LI(i <= min_count) \
  LI(g_k < i ==> res->ulongs[g_k] == (OP(LEW(set1, g_k), LEW(set2, g_k)))) \
  LI((g_k >= i && g_k < count1) ==> set1->ulongs[g_k] == LEW(set1, g_k)) \
  LI((g_k >= i && g_k < count2) ==> set2->ulongs[g_k] == LEW(set2, g_k)) \
  LD(min_count - i)
/* second/third loops copy (a function F of) the longer operand's extra words */
#define COMB_LOOP2(src, cnt, F) \
  LA(i, __CPROVER_object_whole(res->ulongs)) \
  LI(min_count <= i && i <= max_count) \
  LI(g_k < min_count ==> res->ulongs[g_k] == LEW(res, g_k)) \
  LI((g_k >= min_count && g_k < i) ==> res->ulongs[g_k] == (F(LEW(src, g_k)))) \
  LI((g_k >= i && g_k < cnt) ==> src->ulongs[g_k] == LEW(src, g_k)) \
  LD(max_count - i)

#define OP_OR(a,b) ((a) | (b))
#define OP_AND(a,b) ((a) & (b))
#define OP_ANDNOT(a,b) ((a) & ~(b))
#define OP_XOR(a,b) ((a) ^ (b))
#define F_ID(a) (a)
#define F_NOT(a) (~(a))

#define HWLOC_VERIF_LOOP_hwloc_bitmap_or_1 COMB_LOOP1(OP_OR)
#define HWLOC_VERIF_LOOP_hwloc_bitmap_or_2 COMB_LOOP2(set1, count1, F_ID)
#define HWLOC_VERIF_LOOP_hwloc_bitmap_or_3 COMB_LOOP2(set2, count2, F_ID)

#define HWLOC_VERIF_LOOP_hwloc_bitmap_iszero_1 \
  LA(i) \
  LI(i <= set->ulongs_count) \
  LI(g_k < i ==> set->ulongs[g_k] == ZEROW) \
  LD(set->ulongs_count - i)

#define HWLOC_VERIF_LOOP_hwloc_bitmap_first_1 \
  LA(i) \
  LI(i <= set->ulongs_count) \
  LI(g_k < i ==> set->ulongs[g_k] == ZEROW) \
  LD(set->ulongs_count - i)


#define TOP_AND(a,b) ((a) && (b))
#define TOP_ANDNOT(a,b) ((a) && !(b))
#define TOP_XOR(a,b) ((a) != (b))

#define HWLOC_VERIF_LOOP_hwloc_bitmap_and_1 COMB_LOOP1(OP_AND)
#define HWLOC_VERIF_LOOP_hwloc_bitmap_and_2 COMB_LOOP2(set1, count1, F_ID)
#define HWLOC_VERIF_LOOP_hwloc_bitmap_and_3 COMB_LOOP2(set2, count2, F_ID)
#define HWLOC_VERIF_LOOP_hwloc_bitmap_andnot_1 COMB_LOOP1(OP_ANDNOT)
#define HWLOC_VERIF_LOOP_hwloc_bitmap_andnot_2 COMB_LOOP2(set1, count1, F_ID)
#define HWLOC_VERIF_LOOP_hwloc_bitmap_andnot_3 COMB_LOOP2(set2, count2, F_NOT)
#define F_XW2(a) ((a) ^ w2)
#define F_XW1(a) ((a) ^ w1)
#define HWLOC_VERIF_LOOP_hwloc_bitmap_xor_1 COMB_LOOP1(OP_XOR)
#define HWLOC_VERIF_LOOP_hwloc_bitmap_xor_2 COMB_LOOP2(set1, count1, F_XW2)
#define HWLOC_VERIF_LOOP_hwloc_bitmap_xor_3 COMB_LOOP2(set2, count2, F_XW1)

#define HWLOC_VERIF_LOOP_hwloc_bitmap_not_1 \
  LA(i, __CPROVER_object_whole(res->ulongs)) \
  LI(i <= count) \
  LI(g_k < i ==> res->ulongs[g_k] == ~LEW(set, g_k)) \
  LI((g_k >= i && g_k < count) ==> set->ulongs[g_k] == LEW(set, g_k)) \
  LD(count - i)

#define HWLOC_VERIF_LOOP_hwloc_bitmap_from_ith_ulong_1 \
  LA(j, __CPROVER_object_whole(set->ulongs)) \
  LI(j <= i) \
  LI(g_k < j ==> set->ulongs[g_k] == ZEROW) \
  LI(set->ulongs[i] == mask) \
  LD(i - j)

#define HWLOC_VERIF_LOOP_hwloc_bitmap_from_ulongs_1 \
  LA(j, __CPROVER_object_whole(set->ulongs)) \
  LI(j <= nr) \
  LI(g_k < j ==> set->ulongs[g_k] == masks[g_k]) \
  LD(nr - j)

#define HWLOC_VERIF_LOOP_hwloc_bitmap_to_ulongs_1 \
  LA(j, __CPROVER_object_whole(masks)) \
  LI(j <= nr) \
  LI(g_k < j ==> masks[g_k] == W(set, g_k)) \
  LD(nr - j)

/* set_range / clr_range: V is the value written to the middle words */
#define RANGE_LOOP_INF(V) \
  LA(i, __CPROVER_object_whole(set->ulongs)) \
  LI(beginset < i && i <= set->ulongs_count) \
  LI(g_k <= beginset ==> set->ulongs[CL(set, g_k)] == LEW(set, g_k)) \
  LI((g_k > beginset && g_k < i) ==> set->ulongs[g_k] == (V)) \
  LD(set->ulongs_count - i)
#define RANGE_LOOP_FIN(V) \
  LA(i, __CPROVER_object_whole(set->ulongs)) \
  LI(beginset < i && (i <= endset || i == beginset + 1)) \
  LI((g_k <= beginset || g_k >= endset) ==> set->ulongs[CL(set, g_k)] == LEW(set, g_k)) \
  LI((g_k > beginset && g_k < i && g_k < endset) ==> set->ulongs[g_k] == (V)) \
  LI((g_k >= i && g_k < endset) ==> set->ulongs[g_k] == LEW(set, g_k)) \
  LD(endset - i)
#define HWLOC_VERIF_LOOP_hwloc_bitmap_set_range_1 RANGE_LOOP_INF(FULLW)
#define HWLOC_VERIF_LOOP_hwloc_bitmap_set_range_2 RANGE_LOOP_FIN(FULLW)
#define HWLOC_VERIF_LOOP_hwloc_bitmap_clr_range_1 RANGE_LOOP_INF(ZEROW)
#define HWLOC_VERIF_LOOP_hwloc_bitmap_clr_range_2 RANGE_LOOP_FIN(ZEROW)

#define HWLOC_VERIF_LOOP_hwloc_bitmap_isfull_1 \
  LA(i) \
  LI(i <= set->ulongs_count) \
  LI(g_k < i ==> set->ulongs[g_k] == FULLW) \
  LD(set->ulongs_count - i)

#define HWLOC_VERIF_LOOP_hwloc_bitmap_isequal_1 \
  LA(i) LI(i <= min_count) \
  LI(g_k < i ==> set1->ulongs[g_k] == set2->ulongs[g_k]) \
  LD(min_count - i)
#define HWLOC_VERIF_LOOP_hwloc_bitmap_isequal_2 \
  LA(i) LI(min_count <= i && i <= count1) \
  LI((g_k >= min_count && g_k < i) ==> set1->ulongs[g_k] == w2) \
  LD(count1 - i)
#define HWLOC_VERIF_LOOP_hwloc_bitmap_isequal_3 \
  LA(i) LI(min_count <= i && i <= count2) \
  LI((g_k >= min_count && g_k < i) ==> set2->ulongs[g_k] == w1) \
  LD(count2 - i)

#define HWLOC_VERIF_LOOP_hwloc_bitmap_intersects_1 \
  LA(i) LI(i <= min_count) \
  LI(g_k < i ==> (set1->ulongs[g_k] & set2->ulongs[g_k]) == 0) \
  LD(min_count - i)
#define HWLOC_VERIF_LOOP_hwloc_bitmap_intersects_2 \
  LA(i) LI(min_count <= i && i <= set1->ulongs_count) \
  LI((g_k >= min_count && g_k < i) ==> set1->ulongs[g_k] == 0) \
  LD(set1->ulongs_count - i)
#define HWLOC_VERIF_LOOP_hwloc_bitmap_intersects_3 \
  LA(i) LI(min_count <= i && i <= set2->ulongs_count) \
  LI((g_k >= min_count && g_k < i) ==> set2->ulongs[g_k] == 0) \
  LD(set2->ulongs_count - i)

#define HWLOC_VERIF_LOOP_hwloc_bitmap_isincluded_1 \
  LA(i) LI(i <= min_count) \
  LI(g_k < i ==> (sub_set->ulongs[g_k] & ~super_set->ulongs[g_k]) == 0) \
  LD(min_count - i)
#define HWLOC_VERIF_LOOP_hwloc_bitmap_isincluded_2 \
  LA(i) LI(min_count <= i && i <= sub_count) \
  LI((g_k >= min_count && g_k < i) ==> sub_set->ulongs[g_k] == 0) \
  LD(sub_count - i)
#define HWLOC_VERIF_LOOP_hwloc_bitmap_isincluded_3 \
  LA(i) LI(min_count <= i && i <= super_count) \
  LI((g_k >= min_count && g_k < i) ==> super_set->ulongs[g_k] == FULLW) \
  LD(super_count - i)

#define HWLOC_VERIF_LOOP_hwloc_bitmap_first_unset_1 \
  LA(i) \
  LI(i <= set->ulongs_count) \
  LI(g_k < i ==> set->ulongs[g_k] == FULLW) \
  LD(set->ulongs_count - i)

#define HWLOC_VERIF_LOOP_hwloc_bitmap_last_1 \
  LA(i) \
  LI(-1 <= i && i < (int)set->ulongs_count) \
  LI(((long)g_k > (long)i && g_k < set->ulongs_count) ==> set->ulongs[g_k] == ZEROW) \
  LD(i)
#define HWLOC_VERIF_LOOP_hwloc_bitmap_last_unset_1 \
  LA(i) \
  LI(-1 <= i && i < (int)set->ulongs_count) \
  LI(((long)g_k > (long)i && g_k < set->ulongs_count) ==> set->ulongs[g_k] == FULLW) \
  LD(i)

/* next / next_unset: every ghost bit above prev_cpu in the words already visited has the other polarity */
#define HWLOC_VERIF_LOOP_hwloc_bitmap_next_1 \
  LA(i) \
  LI(HWLOC_SUBBITMAP_INDEX((unsigned)(prev_cpu + 1)) <= i && i <= set->ulongs_count) \
  LI((g_i < 64 && g_k < i && (long)GX > (long)prev_cpu) ==> !BITW(set->ulongs[g_k], g_i)) \
  LD(set->ulongs_count - i)
#define HWLOC_VERIF_LOOP_hwloc_bitmap_next_unset_1 \
  LA(i) \
  LI(HWLOC_SUBBITMAP_INDEX((unsigned)(prev_cpu + 1)) <= i && i <= set->ulongs_count) \
  LI((g_i < 64 && g_k < i && (long)GX > (long)prev_cpu) ==> BITW(set->ulongs[g_k], g_i)) \
  LD(set->ulongs_count - i)

/* singlify: two ghost bits X=(g_k,g_i), Y=(g_k2,g_i2) */
#define GY ((unsigned long)g_k2 * 64UL + (unsigned long)g_i2)
#ifdef Q_SINGLIFY   /* contract hwloc_bitmap_singlify__q: X=(g_k,g_i) is the first bit of the old set */
#define QI_SING \
  LI(__CPROVER_forall { unsigned kq; (kq < QB) ==> ((kq >= i && kq < g_k && kq < set->ulongs_count) ==> set->ulongs[kq] == ZEROW) }) \
  LI(!found ==> i <= g_k || i <= set->ulongs_count && g_k >= set->ulongs_count) \
  LI((found && g_k < set->ulongs_count) ==> (g_k < i && set->ulongs[g_k] == (1UL << g_i))) \
  LI(g_k >= set->ulongs_count ==> !found)
#else
#define QI_SING
#endif
#define HWLOC_VERIF_LOOP_hwloc_bitmap_singlify_1 \
  LA(i, found, __CPROVER_object_whole(set->ulongs)) QI_SING \
  LI(i <= set->ulongs_count && (found == 0 || found == 1)) \
  LI((g_k >= i && g_k < set->ulongs_count) ==> set->ulongs[g_k] == LEW(set, g_k)) \
  LI((g_k2 >= i && g_k2 < set->ulongs_count) ==> set->ulongs[g_k2] == LEW(set, g_k2)) \
  LI((!found && g_k < i) ==> (set->ulongs[g_k] == 0 && LEW(set, g_k) == 0)) \
  LI((!found && g_k2 < i) ==> (set->ulongs[g_k2] == 0 && LEW(set, g_k2) == 0)) \
  LI((g_k < i) ==> (set->ulongs[g_k] & ~LEW(set, g_k)) == 0) \
  LI((g_k < i && g_k2 < i && g_i < 64 && g_i2 < 64 && BITW(set->ulongs[g_k], g_i) && BITW(LEW(set, g_k2), g_i2)) ==> GX <= GY) \
  LD(set->ulongs_count - i)

#define HWLOC_VERIF_LOOP_hwloc_bitmap_weight_1 \
  LA(i, weight) \
  LI(i <= set->ulongs_count) \
  LI(0 <= weight && weight <= 64 * (int)i) \
  LI(g_k < i ==> weight >= __builtin_popcountl(set->ulongs[g_k])) \
  LD(set->ulongs_count - i)

/* compare: the words above the cursor agree (forall direction of RET==0) */
/* Q_COMPARE (contract hwloc_bitmap_compare__q): g_k is the highest differing word, the cursor never passes it */
#ifdef Q_COMPARE
#define QI_CMP LI((long)i >= (long)g_k)
#else
#define QI_CMP
#endif
#define HWLOC_VERIF_LOOP_hwloc_bitmap_compare_1 \
  LA(i) LI((int)min_count - 1 <= i && i < (int)max_count) QI_CMP \
  LI(((long)g_k > (long)i && g_k < max_count) ==> set2->ulongs[g_k] == val1) \
  LD(i)
#define HWLOC_VERIF_LOOP_hwloc_bitmap_compare_2 \
  LA(i) LI((int)min_count - 1 <= i && i < (int)max_count) QI_CMP \
  LI(((long)g_k > (long)i && g_k < max_count) ==> set1->ulongs[g_k] == val2) \
  LD(i)
#ifdef Q_COMPARE
#define QI_CMP3 LI(g_k < min_count ==> (long)i >= (long)g_k)
#else
#define QI_CMP3
#endif
#define HWLOC_VERIF_LOOP_hwloc_bitmap_compare_3 \
  LA(i) LI(-1 <= i && i < (int)min_count) QI_CMP3 \
  LI(((long)g_k > (long)i && g_k < min_count) ==> set1->ulongs[g_k] == set2->ulongs[g_k]) \
  LD(i)

/* compare_first: the cursor never passes the ghost word (contract hwloc_bitmap_compare_first__q) */
#ifdef Q_COMPARE_FIRST   /* all cases but 4: X=(g_k,g_i) is a bit of one of the sets, the cursor cannot pass its word */
#define QI_CF(cnt) LI((q_case != 4 && g_k < (cnt)) ==> i <= g_k)
#else
#define QI_CF(cnt)
#endif
#define HWLOC_VERIF_LOOP_hwloc_bitmap_compare_first_1 \
  LA(i) LI(i <= min_count) QI_CF(min_count) \
  LD(min_count - i)
#define HWLOC_VERIF_LOOP_hwloc_bitmap_compare_first_2 \
  LA(i) LI(min_count <= i && i <= count2) QI_CF(count2) \
  LD(count2 - i)
#define HWLOC_VERIF_LOOP_hwloc_bitmap_compare_first_3 \
  LA(i) LI(min_count <= i && i <= count1) QI_CF(count1) \
  LD(count1 - i)

/* compare_inclusion: `result` is the inclusion class of the prefix of words already visited.
 * REL(r, v1, v2): what class r says about one pair of words (forall direction). */
#define CI_REL(r, v1, v2) (((r) == HWLOC_BITMAP_EQUAL ==> (v1) == (v2)) && \
                           ((r) == HWLOC_BITMAP_INCLUDED ==> ((v1) & ~(v2)) == 0) && \
                           ((r) == HWLOC_BITMAP_CONTAINS ==> ((v2) & ~(v1)) == 0) && \
                           ((r) == HWLOC_BITMAP_DIFFERENT ==> ((v1) & (v2)) == 0))
#define CI_GHOST(g) \
  LI((g) < i ==> CI_REL(result, W(set1, g), W(set2, g))) \
  LI((empty1 && (g) < i) ==> W(set1, g) == 0) \
  LI((empty2 && (g) < i) ==> W(set2, g) == 0)
#ifdef Q_CINC   /* contract hwloc_bitmap_compare_inclusion__q: case-specific strengthening */
#define QI_CINC \
  LI(q_case == 1 ==> result == HWLOC_BITMAP_EQUAL) \
  LI(q_case == 2 ==> ((result == HWLOC_BITMAP_EQUAL || result == HWLOC_BITMAP_INCLUDED) && \
                      ((g_k < i && (W(set2, g_k) & ~W(set1, g_k)) != 0) ==> result == HWLOC_BITMAP_INCLUDED))) \
  LI(q_case == 3 ==> ((result == HWLOC_BITMAP_EQUAL || result == HWLOC_BITMAP_CONTAINS) && \
                      ((g_k < i && (W(set1, g_k) & ~W(set2, g_k)) != 0) ==> result == HWLOC_BITMAP_CONTAINS))) \
  LI(q_case == 4 ==> ((result == HWLOC_BITMAP_EQUAL ==> (empty1 && empty2)) && \
                      (result == HWLOC_BITMAP_INCLUDED ==> (empty1 && !empty2)) && \
                      (result == HWLOC_BITMAP_CONTAINS ==> (!empty1 && empty2)) && \
                      (result == HWLOC_BITMAP_DIFFERENT ==> (!empty1 && !empty2)) && \
                      ((g_k < i && W(set1, g_k) != 0) ==> !empty1) && \
                      ((g_k2 < i && W(set2, g_k2) != 0) ==> !empty2)))
#else
#define QI_CINC
#endif
#ifndef CI_GHOST2
#define CI_GHOST2
#endif
#define HWLOC_VERIF_LOOP_hwloc_bitmap_compare_inclusion_1 \
  LA(i, result, empty1, empty2) \
  LI(i <= max_count) \
  LI(result == HWLOC_BITMAP_EQUAL || result == HWLOC_BITMAP_INCLUDED || result == HWLOC_BITMAP_CONTAINS || result == HWLOC_BITMAP_DIFFERENT) \
  LI((empty1 == 0 || empty1 == 1) && (empty2 == 0 || empty2 == 1)) \
  LI(result == HWLOC_BITMAP_EQUAL ==> empty1 == empty2) \
  CI_GHOST(g_k) CI_GHOST(g_k2) CI_GHOST(g_j) QI_CINC \
  LD(max_count - i)

/* ---- C04: the three printers.  Cursor triple (tmp == buf + (buflen - size), 0 <= size, buflen>0 ==> size>=1),
 * ghost accounting of the snprintf contract stub (stubs/snprintf.h) and the arena frame fact
 * (include/traversal.arena.h).  Only defined in the printer driver (VERIF_PRINTERS). */
#ifdef VERIF_PRINTERS
#ifdef VERIF_ASPRINTF   /* destination is asprintf's own malloc'ed block: no harness arena, no ghost sum */
#define PR_CURSOR \
  LI(size >= 0 && (size_t)size <= buflen && (buflen == 0 || size >= 1)) \
  LI(buf == (char *)0 ? tmp == (char *)0 : (__CPROVER_same_object(tmp, buf) && tmp == buf + (buflen - (size_t)size))) \
  LI(ret >= 0)
#else
#define PR_CURSOR \
  LI(size >= 0 && (size_t)size <= buflen && (buflen == 0 || size >= 1)) \
  LI(buf == (char *)0 ? tmp == (char *)0 : (__CPROVER_same_object(tmp, buf) && tmp == buf + (buflen - (size_t)size))) \
  LI(!verif_snprintf_neg && ret >= 0 && (long)ret == verif_snprintf_sum) \
  LI(buflen == 0 || buf[0] == 0 || (verif_last_nul < buflen && buf[verif_last_nul] == 0)) \
  LI(VERIF_FRAME_OK)
#endif
#ifdef VERIF_ASPRINTF
#define PR_ASSIGNS res, ret, tmp, size, verif_snprintf_neg, verif_last_nul, verif_snprintf_calls, __CPROVER_object_whole(buf)
#else
#define PR_ASSIGNS res, ret, tmp, size, verif_snprintf_sum, verif_snprintf_neg, verif_last_nul, verif_snprintf_calls, verif_arena
#endif
#define PR_SKIP(lo) LA(i) LI((lo) - 1 <= i && i < (int)set->ulongs_count) LD(i + 1)
#define HWLOC_VERIF_LOOP_hwloc_bitmap_snprintf_1 PR_SKIP(0)
#define HWLOC_VERIF_LOOP_hwloc_bitmap_snprintf_2 PR_SKIP(0)
#define HWLOC_VERIF_LOOP_hwloc_bitmap_snprintf_3 \
  LA(i, accum, accumed, needcomma, merge_with_infinite_prefix, PR_ASSIGNS) \
  LI(-1 <= i && i < (int)set->ulongs_count && (accumed == 0 || accumed == HWLOC_BITMAP_SUBSTRING_SIZE)) \
  LI(ret <= (2 * ((int)set->ulongs_count - 1 - i) - (accumed ? 1 : 0) + 1) * PIECE_MAX)   /* one piece per iteration so far, plus the prefix */ \
  PR_CURSOR \
  LD(2 * (i + 1) + (accumed ? 1 : 0))
#define HWLOC_VERIF_LOOP_hwloc_bitmap_taskset_snprintf_1 PR_SKIP(0)
#define HWLOC_VERIF_LOOP_hwloc_bitmap_taskset_snprintf_2 PR_SKIP(1)
#define HWLOC_VERIF_LOOP_hwloc_bitmap_taskset_snprintf_3 \
  LA(i, started, merge_with_infinite_prefix, PR_ASSIGNS) \
  LI(-1 <= i && i < (int)set->ulongs_count) \
  LI(ret <= ((int)set->ulongs_count - i + 1) * PIECE_MAX) \
  PR_CURSOR \
  LD(i + 1)
#define HWLOC_VERIF_LOOP_hwloc_bitmap_list_snprintf_1 \
  LA(prev, needcomma, PR_ASSIGNS) \
  LI(-1 <= prev && (long)prev < 64L * (long)set->ulongs_count) \
  LI(ret <= (prev + 2) * PIECE_MAX) \
  PR_CURSOR \
  LD(64L * (long)set->ulongs_count - (long)prev)
#endif

#include "bitmap.loops.todo.h"
#endif
