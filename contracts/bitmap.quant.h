/* Clauses of C03 that need a quantified hypothesis (witness directions of the
 * boolean queries, ordering functions).  Each is a SECOND contract for the real
 * function, declared on a never-defined function symbol <fn>__q and enforced with
 * `--enforce-contract <fn>/<fn>__q`.
 *
 * ALLW(k, n, body): for all word indexes k < n: body.  On the SAT back end the
 * quantifier needs a constant bound: QB (and the contract requires the bitmaps to
 * have at most QB words) -- a bounded stand-in, reported as such.  On the SMT back
 * end (thorough tier) QB is MAXW, i.e. no additional bound.
 */
#ifndef VERIF_BITMAP_QUANT_H
#define VERIF_BITMAP_QUANT_H
#include "bitmap.spec.h"

#define ALLW(k, n, body) __CPROVER_forall { unsigned k; (k < QB) ==> ((k < (n)) ==> (body)) }
#define BMQ(s) (BM(s) && (s)->ulongs_count <= QB)

int hwloc_bitmap_iszero__q(const struct hwloc_bitmap_s *set)
REQ(BMQ(set))
REQ(!T(set) && ALLW(k, set->ulongs_count, set->ulongs[k] == ZEROW))
WIT_B(0, set)
ASG()
ENS(RET == 1)
;

int hwloc_bitmap_isfull__q(const struct hwloc_bitmap_s *set)
REQ(BMQ(set))
REQ(T(set) && ALLW(k, set->ulongs_count, set->ulongs[k] == FULLW))
WIT_B(0, set)
ASG()
ENS(RET == 1)
;

#define MAXC(a,b) ((a)->ulongs_count > (b)->ulongs_count ? (a)->ulongs_count : (b)->ulongs_count)

int hwloc_bitmap_isequal__q(const struct hwloc_bitmap_s *set1, const struct hwloc_bitmap_s *set2)
REQ(BMQ(set1))
REQ(__CPROVER_pointer_equals(set2, set1) || BMQ(set2))
REQ(T(set1) == T(set2) && ALLW(k, MAXC(set1, set2), W(set1, k) == W(set2, k)))
WIT_B(0, set1) WIT_B(1, set2) WIT_ALIAS(set2 == set1 ? 1 : 0)
ASG()
ENS(RET == 1)
;

int hwloc_bitmap_intersects__q(const struct hwloc_bitmap_s *set1, const struct hwloc_bitmap_s *set2)
REQ(BMQ(set1))
REQ(__CPROVER_pointer_equals(set2, set1) || BMQ(set2))
REQ(!(T(set1) && T(set2)) && ALLW(k, MAXC(set1, set2), (W(set1, k) & W(set2, k)) == ZEROW))
WIT_B(0, set1) WIT_B(1, set2) WIT_ALIAS(set2 == set1 ? 1 : 0)
ASG()
ENS(RET == 0)
;

int hwloc_bitmap_isincluded__q(const struct hwloc_bitmap_s *sub_set, const struct hwloc_bitmap_s *super_set)
REQ(BMQ(sub_set))
REQ(__CPROVER_pointer_equals(super_set, sub_set) || BMQ(super_set))
REQ((!T(sub_set) || T(super_set)) && ALLW(k, MAXC(sub_set, super_set), (W(sub_set, k) & ~W(super_set, k)) == ZEROW))
WIT_B(0, sub_set) WIT_B(1, super_set) WIT_ALIAS(super_set == sub_set ? 1 : 0)
ASG()
ENS(RET == 1)
;

/* compare: the tail is the most significant digit, then the highest differing word decides */
int hwloc_bitmap_compare__q(const struct hwloc_bitmap_s *set1, const struct hwloc_bitmap_s *set2)
REQ(BMQ(set1))
REQ(__CPROVER_pointer_equals(set2, set1) || BMQ(set2))
REQ(T(set1) == T(set2) && g_k < MAXC(set1, set2) && W(set1, g_k) != W(set2, g_k))
REQ(__CPROVER_forall { unsigned k; (k < QB) ==> ((k > g_k && k < MAXC(set1, set2)) ==> W(set1, k) == W(set2, k)) })
WIT_B(0, set1) WIT_B(1, set2) WIT_ALIAS(set2 == set1 ? 1 : 0)
ASG()
ENS(RET == (W(set1, g_k) < W(set2, g_k) ? -1 : 1))
;

/* compare_first: sign(first(set1) - first(set2)), the empty set being larger than everything.
 * X = ghost bit (g_k, g_i).  q_case selects the hypothesis. */
#define LOWMASK(i)    ((1UL << ((i) & 63u)) - 1UL)            /* bits below i */
#define NOBITBELOW(s,k) ((W(s, g_k) & LOWMASK(g_i)) == ZEROW && ALLW(k, g_k, W(s, k) == ZEROW))
#define FIRSTAT(s,k)    (BITW(W(s, g_k), g_i) && NOBITBELOW(s,k))
#define NOBITUPTO(s,k)  (!BITW(W(s, g_k), g_i) && NOBITBELOW(s,k))
#define EMPTYQ(s,k)     (!T(s) && ALLW(k, (s)->ulongs_count, (s)->ulongs[k] == ZEROW))
int hwloc_bitmap_compare_first__q(const struct hwloc_bitmap_s *set1, const struct hwloc_bitmap_s *set2)
REQ(BMQ(set1))
REQ(__CPROVER_pointer_equals(set2, set1) || BMQ(set2))
REQ(g_i < 64 && g_k <= QB && q_case >= 1 && q_case <= 6)
#ifdef Q_CASE            /* one hypothesis per run (SMT runs) */
REQ(q_case == Q_CASE)
#endif
REQ(q_case == 1 ==> (FIRSTAT(set1, ka1) && NOBITUPTO(set2, ka2)))     /* first(1) = X < first(2)  */
REQ(q_case == 2 ==> (FIRSTAT(set2, kb1) && NOBITUPTO(set1, kb2)))     /* first(2) = X < first(1)  */
REQ(q_case == 3 ==> (FIRSTAT(set1, kc1) && FIRSTAT(set2, kc2)))       /* same first bit           */
REQ(q_case == 4 ==> (EMPTYQ(set1, kd1) && EMPTYQ(set2, kd2)))
REQ(q_case == 5 ==> (EMPTYQ(set1, ke1) && GBIT(set2)))           /* empty is larger          */
REQ(q_case == 6 ==> (EMPTYQ(set2, kf1) && GBIT(set1)))
WIT_B(0, set1) WIT_B(1, set2) WIT_ALIAS(set2 == set1 ? 1 : 0)
ASG()
ENS((q_case == 1 || q_case == 6) ==> RET < 0)
ENS((q_case == 2 || q_case == 5) ==> RET > 0)
ENS((q_case == 3 || q_case == 4) ==> RET == 0)
;

/* singlify keeps the first element: if X is the first element of the old set it is in the new one */
int hwloc_bitmap_singlify__q(struct hwloc_bitmap_s * set)
REQ(BMQ(set))
REQ(set->ulongs_count < MAXW)
REQ(g_i < 64 && g_k <= QB && FIRSTAT(set, k1))
WIT_B(0, set)
ASG(BM_ASSIGNS(set)) FRE(set->ulongs)
ENS(RET == 0 ==> GBIT(set))
;

/* compare_inclusion: the four classes that need a universally quantified hypothesis.
 * Together with the INTERSECTS clause of the base contract the five cases are exhaustive. */
#define NONEMPTYAT(s, g) (W(s, g) != ZEROW || T(s))
int hwloc_bitmap_compare_inclusion__q(const struct hwloc_bitmap_s * set1, const struct hwloc_bitmap_s * set2)
REQ(BMQ(set1))
REQ(__CPROVER_pointer_equals(set2, set1) || BMQ(set2))
REQ(q_case >= 1 && q_case <= 4)
REQ(q_case == 1 ==> (T(set1) == T(set2) && ALLW(ka, MAXC(set1, set2), W(set1, ka) == W(set2, ka))))
REQ(q_case == 2 ==> ((!T(set1) || T(set2)) && ALLW(kb, MAXC(set1, set2), (W(set1, kb) & ~W(set2, kb)) == ZEROW)
                     && ((W(set2, g_k) & ~W(set1, g_k)) != ZEROW || (T(set2) && !T(set1)))))
REQ(q_case == 3 ==> ((!T(set2) || T(set1)) && ALLW(kc, MAXC(set1, set2), (W(set2, kc) & ~W(set1, kc)) == ZEROW)
                     && ((W(set1, g_k) & ~W(set2, g_k)) != ZEROW || (T(set1) && !T(set2)))))
REQ(q_case == 4 ==> (!(T(set1) && T(set2)) && ALLW(kd, MAXC(set1, set2), (W(set1, kd) & W(set2, kd)) == ZEROW)
                     && NONEMPTYAT(set1, g_k) && NONEMPTYAT(set2, g_k2)))
WIT_B(0, set1) WIT_B(1, set2) WIT_ALIAS(set2 == set1 ? 1 : 0)
ASG()
ENS(q_case == 1 ==> RET == HWLOC_BITMAP_EQUAL)
ENS(q_case == 2 ==> RET == HWLOC_BITMAP_INCLUDED)
ENS(q_case == 3 ==> RET == HWLOC_BITMAP_CONTAINS)
ENS(q_case == 4 ==> RET == HWLOC_BITMAP_DIFFERENT)
;

/* weight: exact value.  The partial-sum induction cannot be carried by a ghost-index invariant, so this
 * clause is a BOUNDED stand-in: bitmaps of at most 4 words, loop unwound (no loop contract). */
#define PC(w) __builtin_popcountl(w)
int hwloc_bitmap_weight__q(const struct hwloc_bitmap_s * set)
REQ(BM(set) && set->ulongs_count <= 4)
WIT_B(0, set)
ASG()
ENS(T(set) ==> RET == -1)
ENS(!T(set) ==> RET == PC(W(set, 0u)) + PC(W(set, 1u)) + PC(W(set, 2u)) + PC(W(set, 3u)))
;

/* C04, bounded stand-in: hwloc_bitmap_list_sscanf on an arbitrary NUL-terminated string of <= SLEN bytes, with
 * hwloc_bitmap_zero/set/set_range replaced by their (proved) contracts; parsed numbers < 2^30 (the domain of
 * those contracts, via STRTOUL_MAX).  The string loops are unwound. */
#ifdef SLEN
int hwloc_bitmap_list_sscanf__q(struct hwloc_bitmap_s *set, const char * __hwloc_restrict string)
REQ(BM(set))
REQ(__CPROVER_is_fresh(string, SLEN + 1) && string[SLEN] == 0)
ASG(BM_ASSIGNS(set)) FRE(set->ulongs)
ENS(RET == 0 || RET == -1)
ENS(REP_POST(set))
;
#endif

#endif
