/* Specification vocabulary for hwloc bitmaps (DESIGN.md section 1.2).
 *
 * The abstract value of a bitmap b is the pair
 *     W(b,k)  word k of the characteristic function, for every k >= 0
 *     T(b)    whether all bits beyond the stored words are set
 * and the denoted set is { 64*k+i | bit i of W(b,k) }.  Two representations
 * denote the same set iff all W agree and T agrees.  Every C03 postcondition is
 * stated over W/T for the *ghost* word index g_k (and ghost bit g_i), never over
 * ulongs_count or ulongs_allocated.
 */
#ifndef VERIF_BITMAP_SPEC_H
#define VERIF_BITMAP_SPEC_H

/* constant bound of quantifiers over word indexes (bitmap.quant.h); MAXW = no extra bound (SMT) */
#ifndef QB
#define QB MAXW
#endif

#define FULLW (~0UL)
#define ZEROW 0UL

/* clamped index: k when it addresses a stored word, else 0 (always a valid index since count>=1) */
#define CL(s,k)    ((k) * ((k) < (s)->ulongs_count))
#define TAILW(s)   ((s)->infinite ? FULLW : ZEROW)
#define W(s,k)     ((k) < (s)->ulongs_count ? (s)->ulongs[CL(s,k)] : TAILW(s))
#define T(s)       ((s)->infinite != 0)

/* entry-state values (leaf-wise __CPROVER_old: 6.11 rejects old() over ?:) */
#define OLDW(s,k)  ((k) < __CPROVER_old((s)->ulongs_count) \
                      ? __CPROVER_old((s)->ulongs[CL(s,k)]) \
                      : (__CPROVER_old((s)->infinite) ? FULLW : ZEROW))
#define OLDT(s)    (__CPROVER_old((s)->infinite) != 0)

/* value at loop entry of the (clamped) ghost word */
#define LEW(s,k)   __CPROVER_loop_entry((s)->ulongs[CL(s,k)])

/* bit i (i<64) of word w */
#define BITW(w,i)  ((((w) >> ((i) & 63u)) & 1UL) != 0)
/* the absolute index of ghost bit (g_k,g_i), as unsigned long: no overflow */
#define GX         ((unsigned long)g_k * 64UL + (unsigned long)g_i)
#define GBIT(s)    BITW(W(s,g_k), g_i)
#define OLDGBIT(s) BITW(OLDW(s,g_k), g_i)

/* Representation invariant.  REP is a precondition and a postcondition of every
 * public function, hence an invariant of all API histories. */
#define REP_SCALARS(s) ((s)->ulongs_count >= 1 && (s)->ulongs_count <= (s)->ulongs_allocated \
                        && (s)->ulongs_allocated <= MAXW \
                        && ((s)->infinite == 0 || (s)->infinite == 1))
#define REP(s)      (REP_SCALARS(s) && __CPROVER_is_fresh((s)->ulongs, (s)->ulongs_allocated * sizeof(unsigned long)))
/* after a call the storage is either the block the caller knew or a fresh one */
#define REP_POST(s) (REP_SCALARS(s) && \
                     (((s)->ulongs == __CPROVER_old((s)->ulongs) && (s)->ulongs_allocated == __CPROVER_old((s)->ulongs_allocated)) \
                      || __CPROVER_is_fresh((s)->ulongs, (s)->ulongs_allocated * sizeof(unsigned long))))

#define BM(s)       (__CPROVER_is_fresh(s, sizeof(struct hwloc_bitmap_s)) && REP(s))

/* frame of a function that may rewrite and reallocate bitmap s */
#define BM_ASSIGNS(s) (s)->ulongs, (s)->ulongs_allocated, (s)->ulongs_count, (s)->infinite, __CPROVER_object_whole((s)->ulongs)

#define RET __CPROVER_return_value

/* largest bit index the domain bound allows */
#define MAXBIT (64UL * MAXW - 1UL)

#endif
