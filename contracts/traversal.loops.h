/* Loop contracts for /repo/hwloc/traversal.c (anchors HWLOC_VERIF_LOOP).  They speak about the ghost
 * accounting of the snprintf contract stub (stubs/snprintf.h) and the harness arena (traversal.harness.c). */
#ifndef VERIF_TRAVERSAL_LOOPS_H
#define VERIF_TRAVERSAL_LOOPS_H
#ifdef VERIF_NO_LOOP_CONTRACTS
#define LI(...)
#define LA(...)
#define LD(...)
#else
#define LI __CPROVER_loop_invariant
#define LA __CPROVER_assigns
#define LD __CPROVER_decreases
#endif

/* the cursor triple: tmp == string + (size - tmplen), 0 <= tmplen, size>0 ==> tmplen >= 1 */
#define CURSOR_INV(string, size, tmp, tmplen) \
  LI((tmplen) >= 0 && (size_t)(tmplen) <= (size) && ((size) == 0 || (tmplen) >= 1)) \
  LI((string) == (char *)0 ? (tmp) == (char *)0 : (__CPROVER_same_object(tmp, string) && (tmp) == (string) + ((size) - (size_t)(tmplen))))

#define HWLOC_VERIF_LOOP_hwloc__osdev_type_snprintf_normal_1 \
  LA(i, res, ret, tmp, tmplen, prefix, ostype, verif_snprintf_sum, verif_snprintf_neg, verif_last_nul, verif_snprintf_calls, verif_arena) \
  LI(i <= _HWLOC_OSDEV_TYPE_NAMES_NR) \
  CURSOR_INV(string, size, tmp, tmplen) \
  LI(prefix == '[' || prefix == ',') \
  LI(!verif_snprintf_neg && ret >= 0 && (long)ret == verif_snprintf_sum && ret <= (int)(i + 1) * PIECE_MAX) \
  LI((size) == 0 || (verif_last_nul < (size) && string[verif_last_nul] == 0)) \
  LI(VERIF_FRAME_OK) \
  LD(_HWLOC_OSDEV_TYPE_NAMES_NR - i)

/* short form: no state but the counter */
#define HWLOC_VERIF_LOOP_hwloc__osdev_type_snprintf_short_1 \
  LA(i) LI(i <= _HWLOC_OSDEV_TYPE_NAMES_NR) LD(_HWLOC_OSDEV_TYPE_NAMES_NR - i)

/* not under loop contract (bounded unwinding where used) */
#define HWLOC_VERIF_LOOP_hwloc__type_match_1
#define HWLOC_VERIF_LOOP_hwloc__osdev_types_sscanf_1
/* hwloc_obj_attr_snprintf: the info loop appends "prefix name=value" pieces through the cursor */
#define HWLOC_VERIF_LOOP_hwloc_obj_attr_snprintf_1 \
  LA(i, res, ret, tmp, tmplen, prefix, verif_snprintf_sum, verif_snprintf_neg, verif_last_nul, verif_snprintf_calls, verif_arena) \
  LI(i <= obj->infos.count) \
  CURSOR_INV(string, size, tmp, tmplen) \
  LI(!verif_snprintf_neg && ret >= 0 && (long)ret == verif_snprintf_sum && ret <= (int)(i + 3) * PIECE_MAX) \
  LI((size) == 0 || string[0] == 0 || (verif_last_nul < (size) && string[verif_last_nul] == 0)) \
  LI(VERIF_FRAME_OK) \
  LD(obj->infos.count - i)
#endif
