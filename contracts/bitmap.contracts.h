/* Function contracts for /repo/hwloc/bitmap.c, attached by re-declaration
 * (CBMC merges a contract given on a later declaration into contract::f).
 * Included AFTER the real source file.  Spec vocabulary: bitmap.spec.h. */
#ifndef VERIF_BITMAP_CONTRACTS_H
#define VERIF_BITMAP_CONTRACTS_H
#include "bitmap.spec.h"

#define REQ __CPROVER_requires
#define ENS __CPROVER_ensures
#define ASG __CPROVER_assigns
#define FRE __CPROVER_frees

/* ---------------------------------------------------------------- internals */

static int hwloc_bitmap_realloc_by_ulongs(struct hwloc_bitmap_s * set, unsigned needed_count)
REQ(BM(set))
REQ(needed_count >= 1 && needed_count <= MAXW)
WIT_B(0, set) WIT_S(0, needed_count)
ASG(BM_ASSIGNS(set)) FRE(set->ulongs)
ENS(RET == 0 || RET == -1)
ENS(REP_POST(set))
ENS(W(set, g_k) == OLDW(set, g_k) && T(set) == OLDT(set))
ENS(RET == 0 ==> set->ulongs_count >= needed_count)
;

static void hwloc_bitmap__zero(struct hwloc_bitmap_s *set)
REQ(BM(set))
WIT_B(0, set)
ASG(set->infinite, __CPROVER_object_whole(set->ulongs))
ENS(W(set, g_k) == ZEROW && !T(set))
ENS(set->ulongs_count == __CPROVER_old(set->ulongs_count))
;

static void hwloc_bitmap__fill(struct hwloc_bitmap_s *set)
REQ(BM(set))
WIT_B(0, set)
ASG(set->infinite, __CPROVER_object_whole(set->ulongs))
ENS(W(set, g_k) == FULLW && T(set))
ENS(set->ulongs_count == __CPROVER_old(set->ulongs_count))
;

/* ------------------------------------------------- constructors / modifiers */

void hwloc_bitmap_zero(struct hwloc_bitmap_s * set)
REQ(BM(set))
WIT_B(0, set)
ASG(BM_ASSIGNS(set)) FRE(set->ulongs)
ENS(REP_POST(set))
ENS(W(set, g_k) == ZEROW && !T(set))
;

void hwloc_bitmap_fill(struct hwloc_bitmap_s * set)
REQ(BM(set))
WIT_B(0, set)
ASG(BM_ASSIGNS(set)) FRE(set->ulongs)
ENS(REP_POST(set))
ENS(W(set, g_k) == FULLW && T(set))
;

int hwloc_bitmap_set(struct hwloc_bitmap_s * set, unsigned cpu)
REQ(BM(set))
REQ(cpu <= MAXBIT)
WIT_B(0, set) WIT_S(0, cpu)
ASG(BM_ASSIGNS(set)) FRE(set->ulongs)
ENS(RET == 0 || RET == -1)
ENS(REP_POST(set))
ENS(T(set) == OLDT(set))
ENS(RET == 0 ==> W(set, g_k) == (OLDW(set, g_k) | (g_k == cpu / 64 ? 1UL << (cpu % 64) : 0UL)))
ENS(RET == -1 ==> W(set, g_k) == OLDW(set, g_k))
;

/* ------------------------------------------------------------- combinators */

#define COMBINATOR_CONTRACT(name, WOP, TOP) \
int name (struct hwloc_bitmap_s *res, const struct hwloc_bitmap_s *set1, const struct hwloc_bitmap_s *set2) \
REQ(BM(set1)) \
REQ(BM(set2)) \
REQ(__CPROVER_pointer_equals(res, set1) || __CPROVER_pointer_equals(res, set2) || BM(res)) \
WIT_B(0, set1) WIT_B(1, set2) WIT_B(2, res) WIT_ALIAS(res == set1 ? 1 : res == set2 ? 2 : 0) \
ASG(BM_ASSIGNS(res)) FRE(res->ulongs) \
ENS(RET == 0 || RET == -1) \
ENS(REP_POST(res)) \
ENS(RET == 0 ==> W(res, g_k) == (WOP(OLDW(set1, g_k), OLDW(set2, g_k)))) \
ENS(RET == 0 ==> T(res) == (TOP(OLDT(set1), OLDT(set2)))) \
ENS(RET == -1 ==> (W(res, g_k) == OLDW(res, g_k) && T(res) == OLDT(res))) \
ENS((res != set1) ==> (W(set1, g_k) == OLDW(set1, g_k) && T(set1) == OLDT(set1))) \
ENS((res != set2) ==> (W(set2, g_k) == OLDW(set2, g_k) && T(set2) == OLDT(set2)))

#define TOP_OR(a,b) ((a) || (b))
COMBINATOR_CONTRACT(hwloc_bitmap_or, OP_OR, TOP_OR);


COMBINATOR_CONTRACT(hwloc_bitmap_and, OP_AND, TOP_AND);
COMBINATOR_CONTRACT(hwloc_bitmap_andnot, OP_ANDNOT, TOP_ANDNOT);
COMBINATOR_CONTRACT(hwloc_bitmap_xor, OP_XOR, TOP_XOR);

int hwloc_bitmap_not (struct hwloc_bitmap_s *res, const struct hwloc_bitmap_s *set)
REQ(BM(set))
REQ(__CPROVER_pointer_equals(res, set) || BM(res))
WIT_B(0, set) WIT_B(1, res) WIT_ALIAS(res == set ? 1 : 0)
ASG(BM_ASSIGNS(res)) FRE(res->ulongs)
ENS(RET == 0 || RET == -1)
ENS(REP_POST(res))
ENS(RET == 0 ==> (W(res, g_k) == ~OLDW(set, g_k) && T(res) == !OLDT(set)))
ENS(RET == -1 ==> (W(res, g_k) == OLDW(res, g_k) && T(res) == OLDT(res)))
ENS((res != set) ==> (W(set, g_k) == OLDW(set, g_k) && T(set) == OLDT(set)))
;

int hwloc_bitmap_copy(struct hwloc_bitmap_s * dst, const struct hwloc_bitmap_s * src)
REQ(BM(src))
REQ(BM(dst))
WIT_B(0, src) WIT_B(1, dst) WIT_ALIAS(0)
ASG(BM_ASSIGNS(dst)) FRE(dst->ulongs)
ENS(RET == 0 || RET == -1)
ENS(REP_POST(dst))
ENS(RET == 0 ==> (W(dst, g_k) == OLDW(src, g_k) && T(dst) == OLDT(src)))
ENS(RET == -1 ==> (W(dst, g_k) == OLDW(dst, g_k) && T(dst) == OLDT(dst)))
ENS((dst != src) ==> (W(src, g_k) == OLDW(src, g_k) && T(src) == OLDT(src)))
;

int hwloc_bitmap_from_ulong(struct hwloc_bitmap_s *set, unsigned long mask)
REQ(BM(set))
WIT_B(0, set) WIT_S(0, mask)
ASG(BM_ASSIGNS(set)) FRE(set->ulongs)
ENS(RET == 0)
ENS(REP_POST(set))
ENS(W(set, g_k) == (g_k == 0 ? mask : ZEROW) && !T(set))
;

int hwloc_bitmap_from_ith_ulong(struct hwloc_bitmap_s *set, unsigned i, unsigned long mask)
REQ(BM(set))
REQ(i < MAXW)
WIT_B(0, set) WIT_S(0, i) WIT_S(1, mask)
ASG(BM_ASSIGNS(set)) FRE(set->ulongs)
ENS(RET == 0 || RET == -1)
ENS(REP_POST(set))
ENS(RET == 0 ==> (W(set, g_k) == (g_k == i ? mask : ZEROW) && !T(set)))
ENS(RET == -1 ==> (W(set, g_k) == OLDW(set, g_k) && T(set) == OLDT(set)))
;

int hwloc_bitmap_from_ulongs(struct hwloc_bitmap_s *set, unsigned nr, const unsigned long *masks)
REQ(BM(set))
REQ(nr <= MAXW)
REQ(nr == 0 || __CPROVER_is_fresh(masks, nr * sizeof(unsigned long)))
WIT_B(0, set) WIT_S(0, nr) WIT_M(nr, masks)
ASG(BM_ASSIGNS(set)) FRE(set->ulongs)
ENS(RET == 0 || RET == -1)
ENS(REP_POST(set))
ENS(RET == 0 ==> (W(set, g_k) == (g_k < nr ? masks[g_k * (g_k < nr)] : ZEROW) && !T(set)))
ENS(RET == -1 ==> (W(set, g_k) == OLDW(set, g_k) && T(set) == OLDT(set)))
;

unsigned long hwloc_bitmap_to_ulong(const struct hwloc_bitmap_s *set)
REQ(BM(set))
WIT_B(0, set)
ASG()
ENS(RET == W(set, 0u))
;

unsigned long hwloc_bitmap_to_ith_ulong(const struct hwloc_bitmap_s *set, unsigned i)
REQ(BM(set))
WIT_B(0, set) WIT_S(0, i)
ASG()
ENS(RET == W(set, i))
;

int hwloc_bitmap_to_ulongs(const struct hwloc_bitmap_s *set, unsigned nr, unsigned long *masks)
REQ(BM(set))
REQ(nr <= 2 * MAXW)
REQ(__CPROVER_is_fresh(masks, (nr ? nr : 1u) * sizeof(unsigned long)))  /* nr==0 with a dangling masks pointer is not covered */
WIT_B(0, set) WIT_S(0, nr)
ASG(__CPROVER_object_whole(masks))
ENS(RET == 0)
ENS(g_k < nr ==> masks[g_k * (g_k < nr)] == W(set, g_k))
;

int hwloc_bitmap_nr_ulongs(const struct hwloc_bitmap_s *set)
REQ(BM(set))
WIT_B(0, set)
ASG()
ENS(T(set) ==> RET == -1)
ENS(!T(set) ==> (RET >= 0 && (unsigned)RET <= set->ulongs_count))
ENS((!T(set) && g_k >= (unsigned)RET) ==> W(set, g_k) == ZEROW)
ENS((!T(set) && RET > 0) ==> W(set, (unsigned)RET - 1) != ZEROW)
;

int hwloc_bitmap_only(struct hwloc_bitmap_s * set, unsigned cpu)
REQ(BM(set))
REQ(cpu <= MAXBIT)
WIT_B(0, set) WIT_S(0, cpu)
ASG(BM_ASSIGNS(set)) FRE(set->ulongs)
ENS(RET == 0 || RET == -1)
ENS(REP_POST(set))
ENS(RET == 0 ==> (W(set, g_k) == (g_k == cpu / 64 ? 1UL << (cpu % 64) : ZEROW) && !T(set)))
ENS(RET == -1 ==> (W(set, g_k) == OLDW(set, g_k) && T(set) == OLDT(set)))
;

int hwloc_bitmap_allbut(struct hwloc_bitmap_s * set, unsigned cpu)
REQ(BM(set))
REQ(cpu <= MAXBIT)
WIT_B(0, set) WIT_S(0, cpu)
ASG(BM_ASSIGNS(set)) FRE(set->ulongs)
ENS(RET == 0 || RET == -1)
ENS(REP_POST(set))
ENS(RET == 0 ==> (W(set, g_k) == (g_k == cpu / 64 ? ~(1UL << (cpu % 64)) : FULLW) && T(set)))
ENS(RET == -1 ==> (W(set, g_k) == OLDW(set, g_k) && T(set) == OLDT(set)))
;

int hwloc_bitmap_clr(struct hwloc_bitmap_s * set, unsigned cpu)
REQ(BM(set))
REQ(cpu <= MAXBIT)
WIT_B(0, set) WIT_S(0, cpu)
ASG(BM_ASSIGNS(set)) FRE(set->ulongs)
ENS(RET == 0 || RET == -1)
ENS(REP_POST(set))
ENS(T(set) == OLDT(set))
ENS(RET == 0 ==> W(set, g_k) == (OLDW(set, g_k) & ~(g_k == cpu / 64 ? 1UL << (cpu % 64) : 0UL)))
ENS(RET == -1 ==> W(set, g_k) == OLDW(set, g_k))
;

int hwloc_bitmap_set_ith_ulong(struct hwloc_bitmap_s *set, unsigned i, unsigned long mask)
REQ(BM(set))
REQ(i < MAXW)
WIT_B(0, set) WIT_S(0, i) WIT_S(1, mask)
ASG(BM_ASSIGNS(set)) FRE(set->ulongs)
ENS(RET == 0 || RET == -1)
ENS(REP_POST(set))
ENS(T(set) == OLDT(set))
ENS(RET == 0 ==> W(set, g_k) == (g_k == i ? mask : OLDW(set, g_k)))
ENS(RET == -1 ==> W(set, g_k) == OLDW(set, g_k))
;

/* ranges: bit X is set/cleared iff begin <= X <= end (end == -1: no upper limit);
 * an empty range (end < begin as unsigned) is a no-op */
#define INRANGE(x, b, e) ((unsigned long)(b) <= (x) && ((e) == -1 || (x) <= (unsigned long)(unsigned)(e)))
#define NONEMPTY_RANGE(b, e) ((unsigned)(e) >= (b))

int hwloc_bitmap_set_range(struct hwloc_bitmap_s * set, unsigned begincpu, int _endcpu)
REQ(BM(set))
REQ(_endcpu >= -1 && (_endcpu == -1 || (unsigned)_endcpu <= MAXBIT))
REQ(begincpu <= MAXBIT || !NONEMPTY_RANGE(begincpu, _endcpu))
WIT_B(0, set) WIT_S(0, begincpu) WIT_S(1, (long)_endcpu)
ASG(BM_ASSIGNS(set)) FRE(set->ulongs)
ENS(RET == 0 || RET == -1)
ENS(REP_POST(set))
ENS((RET == 0 && g_i < 64) ==> GBIT(set) == (OLDGBIT(set) || (NONEMPTY_RANGE(begincpu, _endcpu) && INRANGE(GX, begincpu, _endcpu))))
ENS(RET == 0 ==> T(set) == (OLDT(set) || (_endcpu == -1 && NONEMPTY_RANGE(begincpu, _endcpu))))
ENS(RET == -1 ==> (W(set, g_k) == OLDW(set, g_k) && T(set) == OLDT(set)))
;

int hwloc_bitmap_clr_range(struct hwloc_bitmap_s * set, unsigned begincpu, int _endcpu)
REQ(BM(set))
REQ(_endcpu >= -1 && (_endcpu == -1 || (unsigned)_endcpu <= MAXBIT))
REQ(begincpu <= MAXBIT || !NONEMPTY_RANGE(begincpu, _endcpu))
WIT_B(0, set) WIT_S(0, begincpu) WIT_S(1, (long)_endcpu)
ASG(BM_ASSIGNS(set)) FRE(set->ulongs)
ENS(RET == 0 || RET == -1)
ENS(REP_POST(set))
ENS((RET == 0 && g_i < 64) ==> GBIT(set) == (OLDGBIT(set) && !(NONEMPTY_RANGE(begincpu, _endcpu) && INRANGE(GX, begincpu, _endcpu))))
ENS(RET == 0 ==> T(set) == (OLDT(set) && !(_endcpu == -1 && NONEMPTY_RANGE(begincpu, _endcpu))))
ENS(RET == -1 ==> (W(set, g_k) == OLDW(set, g_k) && T(set) == OLDT(set)))
;

int hwloc_bitmap_isset(const struct hwloc_bitmap_s * set, unsigned cpu)
REQ(BM(set))
WIT_B(0, set) WIT_S(0, cpu)
ASG()
ENS(RET == (BITW(W(set, cpu / 64), cpu % 64) ? 1 : 0))
;

int hwloc_bitmap_isfull(const struct hwloc_bitmap_s *set)
REQ(BM(set))
WIT_B(0, set)
ASG()
ENS(RET == 0 || RET == 1)
ENS(RET == 1 ==> (W(set, g_k) == FULLW && T(set)))
ENS((W(set, g_k) != FULLW || !T(set)) ==> RET == 0)
;

int hwloc_bitmap_isequal (const struct hwloc_bitmap_s *set1, const struct hwloc_bitmap_s *set2)
REQ(BM(set1))
REQ(__CPROVER_pointer_equals(set2, set1) || BM(set2))
WIT_B(0, set1) WIT_B(1, set2) WIT_ALIAS(set2 == set1 ? 1 : 0)
ASG()
ENS(RET == 0 || RET == 1)
ENS(RET == 1 ==> (W(set1, g_k) == W(set2, g_k) && T(set1) == T(set2)))
;

int hwloc_bitmap_intersects (const struct hwloc_bitmap_s *set1, const struct hwloc_bitmap_s *set2)
REQ(BM(set1))
REQ(__CPROVER_pointer_equals(set2, set1) || BM(set2))
WIT_B(0, set1) WIT_B(1, set2) WIT_ALIAS(set2 == set1 ? 1 : 0)
ASG()
ENS(RET == 0 || RET == 1)
ENS(RET == 0 ==> ((W(set1, g_k) & W(set2, g_k)) == ZEROW && !(T(set1) && T(set2))))
;

int hwloc_bitmap_isincluded (const struct hwloc_bitmap_s *sub_set, const struct hwloc_bitmap_s *super_set)
REQ(BM(sub_set))
REQ(__CPROVER_pointer_equals(super_set, sub_set) || BM(super_set))
WIT_B(0, sub_set) WIT_B(1, super_set) WIT_ALIAS(super_set == sub_set ? 1 : 0)
ASG()
ENS(RET == 0 || RET == 1)
ENS(RET == 1 ==> ((W(sub_set, g_k) & ~W(super_set, g_k)) == ZEROW && (!T(sub_set) || T(super_set))))
;

int hwloc_bitmap_first_unset(const struct hwloc_bitmap_s * set)
REQ(BM(set))
WIT_B(0, set)
ASG()
ENS(RET >= -1)
ENS(RET == -1 ==> (W(set, g_k) == FULLW && T(set)))
ENS(RET >= 0 ==> !BITW(W(set, (unsigned)RET / 64), (unsigned)RET % 64))
ENS((RET >= 0 && g_i < 64 && GX < (unsigned long)RET) ==> GBIT(set))
;

/* last: -1 for the empty set and (documented) for an infinitely-set bitmap */
int hwloc_bitmap_last(const struct hwloc_bitmap_s * set)
REQ(BM(set))
WIT_B(0, set)
ASG()
ENS(RET >= -1)
ENS(T(set) ==> RET == -1)
ENS((RET == -1 && !T(set)) ==> W(set, g_k) == ZEROW)
ENS(RET >= 0 ==> (!T(set) && BITW(W(set, (unsigned)RET / 64), (unsigned)RET % 64)))
ENS((RET >= 0 && g_i < 64 && GX > (unsigned long)RET) ==> !GBIT(set))
;

int hwloc_bitmap_last_unset(const struct hwloc_bitmap_s * set)
REQ(BM(set))
WIT_B(0, set)
ASG()
ENS(RET >= -1)
ENS(!T(set) ==> RET == -1)
ENS((RET == -1 && T(set)) ==> W(set, g_k) == FULLW)
ENS(RET >= 0 ==> (T(set) && !BITW(W(set, (unsigned)RET / 64), (unsigned)RET % 64)))
ENS((RET >= 0 && g_i < 64 && GX > (unsigned long)RET) ==> GBIT(set))
;

int hwloc_bitmap_next(const struct hwloc_bitmap_s * set, int prev_cpu)
REQ(BM(set))
REQ(prev_cpu >= -1 && (long)prev_cpu < (long)MAXBIT)
WIT_B(0, set) WIT_S(0, (long)prev_cpu)
ASG()
ENS(RET == -1 || RET > prev_cpu)
ENS(RET == -1 ==> !T(set))
ENS((RET == -1 && g_i < 64 && (long)GX > (long)prev_cpu) ==> !GBIT(set))
ENS(RET >= 0 ==> BITW(W(set, (unsigned)RET / 64), (unsigned)RET % 64))
ENS((RET >= 0 && g_i < 64 && (long)GX > (long)prev_cpu && GX < (unsigned long)RET) ==> !GBIT(set))
;

int hwloc_bitmap_next_unset(const struct hwloc_bitmap_s * set, int prev_cpu)
REQ(BM(set))
REQ(prev_cpu >= -1 && (long)prev_cpu < (long)MAXBIT)
WIT_B(0, set) WIT_S(0, (long)prev_cpu)
ASG()
ENS(RET == -1 || RET > prev_cpu)
ENS(RET == -1 ==> T(set))
ENS((RET == -1 && g_i < 64 && (long)GX > (long)prev_cpu) ==> GBIT(set))
ENS(RET >= 0 ==> !BITW(W(set, (unsigned)RET / 64), (unsigned)RET % 64))
ENS((RET >= 0 && g_i < 64 && (long)GX > (long)prev_cpu && GX < (unsigned long)RET) ==> GBIT(set))
;

/* singlify: the result is a subset of the old set, and every element of the result is
 * <= every element of the old set (so it is {min(old)} or empty); non-emptiness is a
 * witness clause (bitmap.quant.h) */
#define G2BITOLD(s) BITW(OLDW(s, g_k2), g_i2)
int hwloc_bitmap_singlify(struct hwloc_bitmap_s * set)
REQ(BM(set))
REQ(set->ulongs_count < MAXW)
WIT_B(0, set)
ASG(BM_ASSIGNS(set)) FRE(set->ulongs)
ENS(RET == 0 || RET == -1)
ENS(REP_POST(set))
ENS(!T(set))
ENS((RET == 0 && g_i < 64 && GBIT(set)) ==> OLDGBIT(set))
ENS((RET == 0 && g_i < 64 && g_i2 < 64 && GBIT(set) && G2BITOLD(set)) ==> GX <= GY)
;

int hwloc_bitmap_weight(const struct hwloc_bitmap_s * set)
REQ(BM(set))
WIT_B(0, set)
ASG()
ENS(T(set) ==> RET == -1)
ENS(!T(set) ==> (RET >= 0 && RET <= 64 * (int)set->ulongs_count))
ENS(!T(set) ==> RET >= __builtin_popcountl(W(set, g_k)))
;

/* compare: forall-direction only here (RET==0 means equal sets); the ordering
 * clauses need quantified hypotheses (bitmap.quant.h) */
int hwloc_bitmap_compare(const struct hwloc_bitmap_s * set1, const struct hwloc_bitmap_s * set2)
REQ(BM(set1))
REQ(__CPROVER_pointer_equals(set2, set1) || BM(set2))
WIT_B(0, set1) WIT_B(1, set2) WIT_ALIAS(set2 == set1 ? 1 : 0)
ASG()
ENS(RET == 0 || RET == 1 || RET == -1)
ENS(RET == 0 ==> (W(set1, g_k) == W(set2, g_k) && T(set1) == T(set2)))
ENS(T(set1) && !T(set2) ==> RET == 1)
ENS(!T(set1) && T(set2) ==> RET == -1)
ENS((T(set1) == T(set2) && W(set1, g_k) != W(set2, g_k)) ==> RET != 0)
;

/* compare_inclusion, forall direction for three ghost words, and the (quantifier-free) witness
 * characterisation of INTERSECTS; the other four classes need quantified hypotheses (bitmap.quant.h) */
#define CI_POST(g) CI_REL(RET, W(set1, g), W(set2, g))
#define CI_TAILS  (((RET) == HWLOC_BITMAP_EQUAL ==> T(set1) == T(set2)) && ((RET) == HWLOC_BITMAP_INCLUDED ==> (!T(set1) || T(set2))) && \
                   ((RET) == HWLOC_BITMAP_CONTAINS ==> (!T(set2) || T(set1))) && ((RET) == HWLOC_BITMAP_DIFFERENT ==> !(T(set1) && T(set2))))
int hwloc_bitmap_compare_inclusion(const struct hwloc_bitmap_s * set1, const struct hwloc_bitmap_s * set2)
REQ(BM(set1))
REQ(__CPROVER_pointer_equals(set2, set1) || BM(set2))
WIT_B(0, set1) WIT_B(1, set2) WIT_ALIAS(set2 == set1 ? 1 : 0)
ASG()
ENS(RET == HWLOC_BITMAP_EQUAL || RET == HWLOC_BITMAP_INCLUDED || RET == HWLOC_BITMAP_CONTAINS || RET == HWLOC_BITMAP_INTERSECTS || RET == HWLOC_BITMAP_DIFFERENT)
ENS(CI_POST(g_k) && CI_POST(g_k2) && CI_POST(g_j) && CI_TAILS)
ENS((((W(set1, g_k) & W(set2, g_k)) != 0 || (T(set1) && T(set2))) &&
     ((W(set1, g_k2) & ~W(set2, g_k2)) != 0 || (T(set1) && !T(set2))) &&
     ((W(set2, g_j) & ~W(set1, g_j)) != 0 || (T(set2) && !T(set1)))) ==> RET == HWLOC_BITMAP_INTERSECTS)
;

struct hwloc_bitmap_s * hwloc_bitmap_alloc(void)
ASG()
ENS(RET == NULL || (__CPROVER_is_fresh(RET, sizeof(struct hwloc_bitmap_s)) && REP(RET) && W(RET, g_k) == ZEROW && !T(RET)))
;

struct hwloc_bitmap_s * hwloc_bitmap_alloc_full(void)
ASG()
ENS(RET == NULL || (__CPROVER_is_fresh(RET, sizeof(struct hwloc_bitmap_s)) && REP(RET) && W(RET, g_k) == FULLW && T(RET)))
;

struct hwloc_bitmap_s * hwloc_bitmap_dup(const struct hwloc_bitmap_s * old)
REQ(old == NULL || BM(old))
ASG()
ENS(old == NULL ==> RET == NULL)
ENS(RET == NULL || (__CPROVER_is_fresh(RET, sizeof(struct hwloc_bitmap_s)) && REP(RET) && W(RET, g_k) == W(old, g_k) && T(RET) == T(old)))
;

void hwloc_bitmap_free(struct hwloc_bitmap_s * set)
REQ(BM(set))   /* the NULL case is the separate plain harness h_hwloc_bitmap_free_null */
WIT_B(0, set)
ASG()
FRE(set, set->ulongs)
ENS(__CPROVER_was_freed(set) && __CPROVER_was_freed(__CPROVER_old(set->ulongs)))
;

/* ------------------------------------------------------------------ queries */

int hwloc_bitmap_iszero(const struct hwloc_bitmap_s *set)
REQ(BM(set))
WIT_B(0, set)
ASG()
ENS(RET == 0 || RET == 1)
ENS(RET == 1 ==> (W(set, g_k) == ZEROW && !T(set)))
ENS((W(set, g_k) != ZEROW || T(set)) ==> RET == 0)
;

int hwloc_bitmap_first(const struct hwloc_bitmap_s * set)
REQ(BM(set))
WIT_B(0, set)
ASG()
ENS(RET >= -1)
ENS(RET == -1 ==> (W(set, g_k) == ZEROW && !T(set)))
ENS(RET >= 0 ==> BITW(W(set, (unsigned)RET / 64), (unsigned)RET % 64))
ENS((RET >= 0 && g_i < 64 && GX < (unsigned long)RET) ==> !GBIT(set))
;

#endif
