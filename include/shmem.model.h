/* Model of what shmem.c sees of the rest of the library and of the OS (C19).
 *
 * hwloc__topology_dup(new, old, tma) is replaced by its allocation contract: it requests a sequence of
 * blocks from tma->malloc and nothing else matters to shmem.c.  The request sequence (NREQ sizes) is a
 * ghost fixed for the run -- the same for the length pass and for the write pass, which is the ASSUMPTION
 * "dup is a deterministic function of the (unchanged) topology".  System calls are nondeterministic. */
#ifndef VERIF_SHMEM_MODEL_H
#define VERIF_SHMEM_MODEL_H
#ifndef NREQ
#define NREQ 3
#endif
#define MAPMAX 16384
size_t req_size[NREQ];        /* ghost: the sizes hwloc__topology_dup asks for, in order (the first is the topology struct) */
void *req_ptr[NREQ];          /* what the allocator returned in the last pass */
int dup_fails;                /* ghost: dup fails after the allocations */
unsigned long verif_pagesize;
char verif_mapping[MAPMAX];   /* the object behind a successful mmap at the requested address */
void *verif_mmap_want; size_t verif_mmap_len; int verif_mmap_calls, verif_munmap_calls, verif_mmap_prot;
int verif_mmap_mode;          /* 0 MAP_FAILED, 1 requested address, 2 another address */
unsigned char verif_header_bytes[24];

/* the two cache refreshes are logged: which topology was refreshed last, and whether that happened after the dup */
hwloc_topology_t verif_last_dist_refresh, verif_last_memattrs_refresh; int verif_dup_done, verif_dist_refresh_after_dup, verif_memattrs_refresh_after_dup;
int hwloc__topology_dup(hwloc_topology_t *newp, hwloc_topology_t old, struct hwloc_tma *tma)
{
  unsigned k;
  (void)old;
  for (k = 0; k < NREQ; k++) {
    req_ptr[k] = tma->malloc(tma, req_size[k]);
    if (!req_ptr[k]) return -1;
  }
  if (dup_fails) return -1;
  *newp = (hwloc_topology_t)req_ptr[0];
  verif_dup_done = 1;
  return 0;
}
void hwloc_topology_destroy(hwloc_topology_t t) { (void)t; }
void hwloc_internal_distances_refresh(hwloc_topology_t t) { verif_last_dist_refresh = t; if (verif_dup_done) verif_dist_refresh_after_dup = 1; }
void hwloc_internal_memattrs_refresh(hwloc_topology_t t) { verif_last_memattrs_refresh = t; if (verif_dup_done) verif_memattrs_refresh_after_dup = 1; }
void hwloc_components_init(void) { }
void hwloc_components_fini(void) { }
long sysconf(int name) { (void)name; return (long)verif_pagesize; }
off_t lseek(int fd, off_t off, int whence) { (void)fd; (void)off; (void)whence; return nondet_bool() ? (off_t)-1 : off; }
ssize_t write(int fd, const void *b, size_t n) { (void)fd; (void)b; return nondet_bool() ? (ssize_t)n : (ssize_t)-1; }
ssize_t read(int fd, void *b, size_t n)
{
  (void)fd;
  if (nondet_bool()) return -1;
  if (n == sizeof(verif_header_bytes)) { unsigned i; for (i = 0; i < sizeof(verif_header_bytes); i++) ((unsigned char *)b)[i] = verif_header_bytes[i]; }
  return (ssize_t)n;
}
int ftruncate(int fd, off_t l) { (void)fd; (void)l; return nondet_bool() ? 0 : -1; }
void *mmap(void *addr, size_t len, int prot, int flags, int fd, off_t off)
{
  (void)flags; (void)fd; (void)off;
  verif_mmap_calls++; verif_mmap_want = addr; verif_mmap_len = len; verif_mmap_prot = prot;
  if (verif_mmap_mode == 0) return MAP_FAILED;
  if (verif_mmap_mode == 1) return addr;
  return (void *)(verif_mapping + 8192);       /* some other place */
}
int munmap(void *addr, size_t len) { (void)addr; (void)len; verif_munmap_calls++; return 0; }
#endif
