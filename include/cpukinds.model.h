/* Executable small-universe model of the bitmap functions cpukinds.c calls (C15).
 *
 * cpukinds.c never looks inside a cpuset: it combines whole sets with and/andnot and asks iszero /
 * compare_inclusion.  With at most 3 existing (pairwise disjoint) kinds and one new set there are 8 Venn
 * regions (in kind i and in / not in the new set, in the new set only, in nothing), so a universe of 8 PUs
 * -- one per region -- realises every pattern of empty / non-empty regions the code can distinguish.
 * The functions below are the exact set operations on that universe; the real implementations are
 * verified for arbitrary widths under C03.  This is an abstraction of the DEPENDENCY, the code under
 * verification (cpukinds.c) is the real file. */
#ifndef VERIF_CPUKINDS_MODEL_H
#define VERIF_CPUKINDS_MODEL_H
struct hwloc_bitmap_s { unsigned char bits; unsigned char live; };
#define NPOOL 12
struct hwloc_bitmap_s verif_pool[NPOOL];
unsigned verif_pool_used;
hwloc_bitmap_t hwloc_bitmap_alloc(void)
{
  /* allocation failure is not modelled (cpukinds.c does not check it; out of memory is not part of C15) */
  __CPROVER_assert(verif_pool_used < NPOOL, "model: bitmap pool large enough");
  verif_pool[verif_pool_used].bits = 0; verif_pool[verif_pool_used].live = 1;
  return &verif_pool[verif_pool_used++];
}
hwloc_bitmap_t hwloc_bitmap_dup(hwloc_const_bitmap_t s) { hwloc_bitmap_t d = hwloc_bitmap_alloc(); d->bits = s->bits; return d; }
void hwloc_bitmap_free(hwloc_bitmap_t s) { if (s) { __CPROVER_assert(s->live, "no double free of a cpuset"); s->live = 0; } }
int hwloc_bitmap_iszero(hwloc_const_bitmap_t s) { __CPROVER_assert(s->live, "cpuset used while allocated"); return s->bits == 0; }
int hwloc_bitmap_and(hwloc_bitmap_t r, hwloc_const_bitmap_t a, hwloc_const_bitmap_t b) { __CPROVER_assert(r->live && a->live && b->live, "cpusets used while allocated"); r->bits = a->bits & b->bits; return 0; }
int hwloc_bitmap_andnot(hwloc_bitmap_t r, hwloc_const_bitmap_t a, hwloc_const_bitmap_t b) { __CPROVER_assert(r->live && a->live && b->live, "cpusets used while allocated"); r->bits = a->bits & (unsigned char)~b->bits; return 0; }
int hwloc_bitmap_copy(hwloc_bitmap_t d, hwloc_const_bitmap_t s) { __CPROVER_assert(d->live && s->live, "cpusets used while allocated"); d->bits = s->bits; return 0; }
int hwloc_bitmap_compare_inclusion(hwloc_const_bitmap_t a, hwloc_const_bitmap_t b)
{
  unsigned char x = a->bits, y = b->bits;
  __CPROVER_assert(a->live && b->live, "cpusets used while allocated");
  if (x == y) return HWLOC_BITMAP_EQUAL;
  if ((x & ~y) == 0) return HWLOC_BITMAP_INCLUDED;
  if ((y & ~x) == 0) return HWLOC_BITMAP_CONTAINS;
  if (x & y) return HWLOC_BITMAP_INTERSECTS;
  return HWLOC_BITMAP_DIFFERENT;
}
/* Info lists: a small executable model of hwloc__add_info / hwloc__free_infos (topology.c) that keeps what cpukinds.c can
 * observe: add appends the pair to the array (capacity INFOCAP, allocated on first use; the strings are not copied -- the
 * harness compares pairs by the identity of pool strings with pairwise distinct contents); free releases the array and,
 * LIKE THE REAL ONE, leaves count and the dangling array pointer in place. */
#ifndef INFOCAP
#define INFOCAP 6
#endif
int hwloc__add_info(struct hwloc_infos_s *infos, const char *name, const char *value)
{
#ifdef CK_NO_INFOS
  /* jobs that only decide the partition use empty info lists everywhere: no pair can ever be added */
  (void)infos; (void)name; (void)value; __CPROVER_assert(0, "model: no infos in this harness"); return 0;
#endif
  if (!infos->array) { infos->array = malloc(INFOCAP * sizeof(*infos->array)); __CPROVER_assume(infos->array != 0); infos->allocated = INFOCAP; }
  __CPROVER_assert(infos->count < INFOCAP, "model: info array capacity large enough");
  infos->array[infos->count].name = (char *)name; infos->array[infos->count].value = (char *)value;
  infos->count++;
  return 0;
}
void hwloc__free_infos(struct hwloc_infos_s *infos) { free(infos->array); }
/* memmove specialised to the element type of the kinds array (trusted stub of libc memmove) */
static void *verif_memmove_kinds(void *d, const void *s, size_t n)
{
  struct hwloc_internal_cpukind_s *dd = d; const struct hwloc_internal_cpukind_s *ss = s; size_t k, cnt = n / sizeof(*dd);
  __CPROVER_assert(n % sizeof(*dd) == 0, "memmove: whole elements");
  __CPROVER_assert(cnt == 0 || (__CPROVER_r_ok(ss, n) && __CPROVER_w_ok(dd, n)), "memmove: source readable and destination writable for n bytes");
  __CPROVER_assert(cnt <= 8, "model: at most 8 elements moved");
  for (k = 0; k < 8; k++) if (k < cnt) dd[k] = ss[k];        /* callers move downwards (dd < ss): ascending copy is overlap safe */
  __CPROVER_assert(cnt == 0 || dd <= ss, "model: downward move");
  return d;
}
/* the root object (hwloc_get_root_obj() is hwloc_get_obj_by_depth(topology, 0, 0), traversal.c) */
struct hwloc_obj verif_root;
hwloc_obj_t hwloc_get_obj_by_depth(hwloc_topology_t t, int depth, unsigned idx) { (void)t; __CPROVER_assert(depth == 0 && idx == 0, "model: only the root is looked up"); return &verif_root; }
#endif
