/* Executable small-universe model of the bitmap functions cpukinds.c calls (C15).
 *
 * cpukinds.c never looks inside a cpuset: it combines whole sets with and/andnot and asks iszero /
 * compare_inclusion.  With at most 3 existing (pairwise disjoint) kinds and one new set there are 8 Venn
 * regions (in kind i and in / not in the new set, in the new set only, in nothing), so a universe of 8 PUs
 * -- one per region -- realises every pattern of empty / non-empty regions the code can distinguish.
 * The functions below are the exact set operations on that universe; the real implementations are
 * verified for arbitrary widths under C03.  This is an abstraction of the DEPENDENCY, the code under
 * verification (cpukinds.c) is the real file. */
#ifndef VERIF_CPUKINDS_MODEL_H
#define VERIF_CPUKINDS_MODEL_H
struct hwloc_bitmap_s { unsigned char bits; unsigned char live; };
#define NPOOL 12
struct hwloc_bitmap_s verif_pool[NPOOL];
unsigned verif_pool_used;
hwloc_bitmap_t hwloc_bitmap_alloc(void)
{
  /* allocation failure is not modelled (cpukinds.c does not check it; out of memory is not part of C15) */
  __CPROVER_assert(verif_pool_used < NPOOL, "model: bitmap pool large enough");
  verif_pool[verif_pool_used].bits = 0; verif_pool[verif_pool_used].live = 1;
  return &verif_pool[verif_pool_used++];
}
hwloc_bitmap_t hwloc_bitmap_dup(hwloc_const_bitmap_t s) { hwloc_bitmap_t d = hwloc_bitmap_alloc(); d->bits = s->bits; return d; }
void hwloc_bitmap_free(hwloc_bitmap_t s) { if (s) { __CPROVER_assert(s->live, "no double free of a cpuset"); s->live = 0; } }
int hwloc_bitmap_iszero(hwloc_const_bitmap_t s) { __CPROVER_assert(s->live, "cpuset used while allocated"); return s->bits == 0; }
int hwloc_bitmap_and(hwloc_bitmap_t r, hwloc_const_bitmap_t a, hwloc_const_bitmap_t b) { __CPROVER_assert(r->live && a->live && b->live, "cpusets used while allocated"); r->bits = a->bits & b->bits; return 0; }
int hwloc_bitmap_andnot(hwloc_bitmap_t r, hwloc_const_bitmap_t a, hwloc_const_bitmap_t b) { __CPROVER_assert(r->live && a->live && b->live, "cpusets used while allocated"); r->bits = a->bits & (unsigned char)~b->bits; return 0; }
int hwloc_bitmap_copy(hwloc_bitmap_t d, hwloc_const_bitmap_t s) { __CPROVER_assert(d->live && s->live, "cpusets used while allocated"); d->bits = s->bits; return 0; }
int hwloc_bitmap_compare_inclusion(hwloc_const_bitmap_t a, hwloc_const_bitmap_t b)
{
  unsigned char x = a->bits, y = b->bits;
  __CPROVER_assert(a->live && b->live, "cpusets used while allocated");
  if (x == y) return HWLOC_BITMAP_EQUAL;
  if ((x & ~y) == 0) return HWLOC_BITMAP_INCLUDED;
  if ((y & ~x) == 0) return HWLOC_BITMAP_CONTAINS;
  if (x & y) return HWLOC_BITMAP_INTERSECTS;
  return HWLOC_BITMAP_DIFFERENT;
}
/* info lists are not part of what is decided here: the harness only uses empty info lists */
int hwloc__add_info(struct hwloc_infos_s *infos, const char *name, const char *value) { (void)infos; (void)name; (void)value; __CPROVER_assert(0, "model: no infos in these harnesses"); return 0; }
void hwloc__free_infos(struct hwloc_infos_s *infos) { (void)infos; }
#endif
