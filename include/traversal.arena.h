#ifndef VERIF_TRAVERSAL_ARENA_H
#define VERIF_TRAVERSAL_ARENA_H
#ifndef BUFMAX
#define BUFMAX 64
#endif
/* The destination buffer lives inside a fixed arena with guard zones on both sides (a malloc of symbolic
 * size costs 8M SAT variables here).  Bytes outside [buf, buf+size) are compared with a shadow copy after
 * the call for a ghost offset g_j (all offsets at once); stores outside the arena are bounds violations.
 * size==0 is exercised with buf==NULL and with a non-NULL buf (nothing may be written). */
#define ARENA_PRE 4
#define ARENA_POST 4
#define ARENA_N (ARENA_PRE + BUFMAX + ARENA_POST)
struct verif_arena { char b[ARENA_N]; };
struct verif_arena nondet_arena(void);
struct verif_arena verif_arena, verif_shadow;
size_t verif_size;   /* the size argument of the call under verification */
/* frame fact for the ghost offset g_j: the arena byte is untouched unless inside [buf, buf+size) */
#define VERIF_FRAME_OK (g_j >= ARENA_N || (g_j >= ARENA_PRE && g_j < ARENA_PRE + verif_size) || \
                        verif_arena.b[g_j * (g_j < ARENA_N)] == verif_shadow.b[g_j * (g_j < ARENA_N)])
#endif
