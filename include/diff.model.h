/* What diff.c sees of the rest of the library in the plain C16 harnesses: bitmaps are 8-bit sets (diff.c only asks
 * hwloc_bitmap_isequal), objects are found through a two-entry table (the object under test in each topology), the two
 * cache refreshes are no-ops.  The code under verification is the real diff.c. */
#ifndef VERIF_DIFF_MODEL_H
#define VERIF_DIFF_MODEL_H
struct hwloc_bitmap_s { unsigned char bits; };
int hwloc_bitmap_isequal(hwloc_const_bitmap_t a, hwloc_const_bitmap_t b) { return a->bits == b->bits; }
struct hwloc_topology verif_t1, verif_t2;
hwloc_obj_t verif_o1, verif_o2;     /* the object (or root) of each topology */
unsigned verif_lookups;
hwloc_obj_t hwloc_get_obj_by_depth(hwloc_topology_t t, int depth, unsigned idx)
{
  hwloc_obj_t o = t == &verif_t1 ? verif_o1 : t == &verif_t2 ? verif_o2 : (hwloc_obj_t)0;
  verif_lookups++;
  if (o && o->depth == depth && o->logical_index == idx) return o;
  return (hwloc_obj_t)0;
}
void hwloc_internal_distances_refresh(hwloc_topology_t t) { (void)t; }
void hwloc_internal_memattrs_refresh(hwloc_topology_t t) { (void)t; }
#endif
