/* Abstract model of what hwloc/bind.c sees of the rest of the library (C10, DESIGN.md section 3).
 *
 * bind.c never looks inside a bitmap: it only asks iszero/isincluded about the user's set and the
 * topology's root sets, copies the complete set, converts between cpusets and nodesets and
 * allocates one temporary nodeset.  Each of these library functions is replaced by its contract in
 * stub form over GHOST FACTS (nondeterministic booleans fixed for the run, i.e. universally
 * quantified): every possible relation between the user's set and the root sets is covered, for
 * sets of any size.  A query the model does not expect fails an assertion (no silent default).
 */
#ifndef VERIF_BIND_MODEL_H
#define VERIF_BIND_MODEL_H

struct hwloc_bitmap_s { char tag; };
struct hwloc_bitmap_s B_user, B_out, B_tmp, B_topo_cpu, B_comp_cpu, B_topo_node, B_comp_node;

/* ghost facts about the user's set U (read as a cpuset or as a nodeset) and the converted nodeset N */
_Bool F_zero_user, F_user_in_compcpu, F_topocpu_in_user, F_user_in_compnode, F_toponode_in_user;
_Bool F_zero_conv, F_conv_in_compnode, F_toponode_in_conv;

/* state of the temporary nodeset: 0 fresh, 1 copy of the complete nodeset, 2 = cpuset_to_nodeset(U), 3 written by a get hook */
int tmp_live, tmp_state, tmp_leaks;
/* state of the user's output set in get calls: 0 untouched, 1 copy of complete cpuset, 2 copy of complete nodeset,
 * 3 = cpuset_from_nodeset(tmp), 4 written by a get hook */
int out_state, out_from_tmp_state;

static void model_reset(void)
{
  F_zero_user = nondet_bool(); F_user_in_compcpu = nondet_bool(); F_topocpu_in_user = nondet_bool();
  F_user_in_compnode = nondet_bool(); F_toponode_in_user = nondet_bool();
  F_zero_conv = nondet_bool(); F_conv_in_compnode = nondet_bool(); F_toponode_in_conv = nondet_bool();
  /* consistency of the facts with set theory (an empty set is included in everything, and a set that
   * contains the non-empty topology set is not empty): C01 says the topology sets are non-empty and
   * included in the complete sets */
  __CPROVER_assume(!F_zero_user || (F_user_in_compcpu && F_user_in_compnode && !F_topocpu_in_user && !F_toponode_in_user));
  __CPROVER_assume(!F_zero_conv || (F_conv_in_compnode && !F_toponode_in_conv));
  tmp_live = 0; tmp_state = 0; tmp_leaks = 0; out_state = 0; out_from_tmp_state = 0;
}

hwloc_const_cpuset_t hwloc_topology_get_topology_cpuset(hwloc_topology_t t) { (void)t; return &B_topo_cpu; }
hwloc_const_cpuset_t hwloc_topology_get_complete_cpuset(hwloc_topology_t t) { (void)t; return &B_comp_cpu; }
hwloc_const_nodeset_t hwloc_topology_get_topology_nodeset(hwloc_topology_t t) { (void)t; return &B_topo_node; }
hwloc_const_nodeset_t hwloc_topology_get_complete_nodeset(hwloc_topology_t t) { (void)t; return &B_comp_node; }

int hwloc_bitmap_iszero(hwloc_const_bitmap_t s)
{
  if (s == &B_user) return F_zero_user;
  if (s == &B_tmp) {
    __CPROVER_assert(tmp_live, "temporary nodeset used while allocated");
    return tmp_state == 1 ? 0 : tmp_state == 2 ? F_zero_conv : 1;
  }
  __CPROVER_assert(0, "model: unexpected hwloc_bitmap_iszero query");
  return nondet_int();
}

int hwloc_bitmap_isincluded(hwloc_const_bitmap_t sub, hwloc_const_bitmap_t super)
{
  if (sub == &B_user && super == &B_comp_cpu) return F_user_in_compcpu;
  if (sub == &B_topo_cpu && super == &B_user) return F_topocpu_in_user;
  if (sub == &B_user && super == &B_comp_node) return F_user_in_compnode;
  if (sub == &B_topo_node && super == &B_user) return F_toponode_in_user;
  if (sub == &B_tmp && super == &B_comp_node) { __CPROVER_assert(tmp_live, "temporary nodeset used while allocated"); return tmp_state == 1 ? 1 : tmp_state == 2 ? F_conv_in_compnode : 1; }
  if (sub == &B_topo_node && super == &B_tmp) { __CPROVER_assert(tmp_live, "temporary nodeset used while allocated"); return tmp_state == 1 ? 1 : tmp_state == 2 ? F_toponode_in_conv : 0; }
  __CPROVER_assert(0, "model: unexpected hwloc_bitmap_isincluded query");
  return nondet_int();
}

int hwloc_bitmap_copy(hwloc_bitmap_t dst, hwloc_const_bitmap_t src)
{
  if (dst == &B_tmp && src == &B_comp_node) { __CPROVER_assert(tmp_live, "temporary nodeset used while allocated"); tmp_state = 1; return 0; }
  if (dst == &B_out && src == &B_comp_cpu) { out_state = 1; return 0; }
  if (dst == &B_out && src == &B_comp_node) { out_state = 2; return 0; }
  __CPROVER_assert(0, "model: unexpected hwloc_bitmap_copy");
  return 0;
}

hwloc_bitmap_t hwloc_bitmap_alloc(void)
{
  /* allocation failure is not modelled: bind.c does not check it either (not part of C10) */
  __CPROVER_assert(!tmp_live, "at most one temporary nodeset");
  tmp_live = 1; tmp_state = 0;
  return &B_tmp;
}

void hwloc_bitmap_free(hwloc_bitmap_t s)
{
  __CPROVER_assert(s == &B_tmp && tmp_live, "frees exactly the temporary nodeset it allocated");
  tmp_live = 0;
}

/* contracts of the inline locality helpers of hwloc/helper.h */
static int verif_cpuset_to_nodeset(hwloc_topology_t t, hwloc_const_cpuset_t cpuset, hwloc_nodeset_t nodeset)
{
  (void)t;
  __CPROVER_assert(cpuset == &B_user && nodeset == &B_tmp && tmp_live, "cpuset_to_nodeset(user set -> temporary nodeset)");
  tmp_state = 2;
  return 0;
}
static int verif_cpuset_from_nodeset(hwloc_topology_t t, hwloc_cpuset_t cpuset, hwloc_const_nodeset_t nodeset)
{
  (void)t;
  __CPROVER_assert(cpuset == &B_out && nodeset == &B_tmp && tmp_live, "cpuset_from_nodeset(temporary nodeset -> user set)");
  out_state = 3; out_from_tmp_state = tmp_state;
  return 0;
}
#endif
