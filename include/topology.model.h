/* Abstract bitmaps for the frame/guard contracts on topology.c, distances.c and diff.c (C02, C08, C19).
 * struct hwloc_bitmap_s is opaque outside bitmap.c; here it is a version counter: every modifying
 * bitmap function bumps the destination's version (a real store, so DFCC's frame check sees it) and
 * the queries are pure functions of ghost facts.  The real bitmap functions are verified under C03. */
#ifndef VERIF_TOPOLOGY_MODEL_H
#define VERIF_TOPOLOGY_MODEL_H
struct hwloc_bitmap_s { unsigned long version; };
_Bool F_intersects_1, F_intersects_2;        /* results of the 1st / 2nd hwloc_bitmap_intersects query of a call */
const struct hwloc_bitmap_s *Q_a[2], *Q_b[2];  /* their recorded arguments */
unsigned Q_n;
int hwloc_bitmap_intersects(hwloc_const_bitmap_t a, hwloc_const_bitmap_t b)
{
  unsigned k = Q_n < 2 ? Q_n : 1;
  (void)a->version; (void)b->version;          /* both must be valid bitmaps */
  Q_a[k] = a; Q_b[k] = b; Q_n++;
  return k == 0 ? F_intersects_1 : F_intersects_2;
}
int hwloc_bitmap_and(hwloc_bitmap_t res, hwloc_const_bitmap_t a, hwloc_const_bitmap_t b)
{ (void)a->version; (void)b->version; res->version++; return nondet_bool() ? 0 : -1; }
int hwloc_bitmap_copy(hwloc_bitmap_t dst, hwloc_const_bitmap_t src)
{ (void)src->version; dst->version++; return nondet_bool() ? 0 : -1; }
#endif
