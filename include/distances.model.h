/* Table-driven stand-in for the object look-ups distances.c performs when it refreshes its cached object
 * pointers (C13).  The real look-ups walk the object tree; what distances.c relies on is only that they
 * are a function of (type, index) returning an object of the topology or NULL.  The harness fills the
 * table; an index that is not in the table has disappeared from the topology. */
#ifndef VERIF_DISTANCES_MODEL_H
#define VERIF_DISTANCES_MODEL_H
#ifndef NB
#define NB 4
#endif
struct verif_lut_entry { hwloc_obj_type_t type; hwloc_uint64_t index; hwloc_obj_t obj; };
struct verif_lut_entry verif_lut[NB];
unsigned verif_lut_n;
unsigned verif_lookups;
static hwloc_obj_t verif_lookup(hwloc_obj_type_t type, hwloc_uint64_t index, int os)
{
  unsigned k;
  verif_lookups++;
  for (k = 0; k < NB; k++)
    if (k < verif_lut_n && verif_lut[k].type == type && (os ? (unsigned)verif_lut[k].index == (unsigned)index : verif_lut[k].index == index))
      return verif_lut[k].obj;
  return (hwloc_obj_t)0;
}
static hwloc_obj_t verif_get_pu_obj_by_os_index(hwloc_topology_t t, unsigned os_index) { (void)t; return verif_lookup(HWLOC_OBJ_PU, os_index, 1); }
static hwloc_obj_t verif_get_numanode_obj_by_os_index(hwloc_topology_t t, unsigned os_index) { (void)t; return verif_lookup(HWLOC_OBJ_NUMANODE, os_index, 1); }
hwloc_obj_t hwloc_get_obj_by_type_and_gp_index(hwloc_topology_t t, hwloc_obj_type_t type, uint64_t gp_index) { (void)t; return verif_lookup(type, gp_index, 0); }
/* depth -> type of the (unclaimed) level tables: any answer */
hwloc_obj_type_t verif_depth_type;
hwloc_obj_type_t hwloc_get_depth_type(hwloc_topology_t t, int depth) { (void)t; (void)depth; return verif_depth_type; }
/* hwloc_distances_add_commit() reconnects the levels in case grouping inserted objects (topology.c, C01/C02: not claimed) */
unsigned verif_reconnects;
int hwloc__reconnect(struct hwloc_topology *t, unsigned long flags) { (void)t; (void)flags; verif_reconnects++; return 0; }
#endif
