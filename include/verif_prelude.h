/* Common prelude of every verification driver TU (DESIGN.md section 1).
 * Included BEFORE the real /repo source file. */
#ifndef VERIF_PRELUDE_H
#define VERIF_PRELUDE_H

#include <stddef.h>
#include <stdlib.h>
#include <string.h>
#include <errno.h>

/* errno as a plain global: glibc's (*__errno_location()) is a call and is
 * rejected in assigns/ensures clauses. */
#undef errno
int verif_errno;
#define errno verif_errno

/* domain bound on bitmap storage, in words (a bound on the input domain handed
 * to the solver, not on loop iterations) */
#ifndef MAXW
#define MAXW 4096u
#endif

/* Ghost indexes: unconstrained globals that are never assigned.  A property
 * proved with g_k free is proved for every value of g_k (the universal
 * quantifier sits at the outermost level). */
unsigned g_k;      /* ghost word index */
unsigned g_i;      /* ghost bit-in-word index (meaningful when < 64) */
int q_case;       /* ghost selector of the hypothesis in multi-case quantified contracts */
unsigned g_j;      /* ghost array-entry index */
unsigned g_k2;     /* second ghost word index (two-point properties) */
unsigned g_i2;     /* second ghost bit-in-word index */

_Bool nondet_bool(void);
int nondet_int(void);
unsigned nondet_unsigned(void);
unsigned long nondet_ulong(void);
size_t nondet_size_t(void);
char nondet_char(void);

/* Harnesses assign the ghosts from nondet values (so that counterexample traces
 * show them, and so that plain non-DFCC harnesses do not see zero-initialised statics). */
#define VERIF_GHOSTS() do { g_k = nondet_unsigned(); g_i = nondet_unsigned(); g_j = nondet_unsigned(); \
                            g_k2 = nondet_unsigned(); g_i2 = nondet_unsigned(); q_case = nondet_int(); VERIF_WIT_HAVOC(); } while (0)

/* Witness mode (-DVERIF_WITNESS): only used after an obligation has been refuted, to make
 * the verifier's counterexample carry the complete entry state in harness-visible
 * variables.  The contracts then additionally bind (and bound to WITN words) each
 * bitmap argument to wit_b[n] and each scalar to wit_s[n]. */
#define WITN 4
struct verif_wit { unsigned count, alloc; int inf; unsigned long w[WITN]; };
struct verif_wit wit_b[3];
unsigned long wit_s[4];
unsigned long wit_m[WITN];
int wit_alias;
struct verif_wit nondet_wit(void);
#ifdef VERIF_WITNESS
#define VERIF_WIT_HAVOC() do { wit_b[0] = nondet_wit(); wit_b[1] = nondet_wit(); wit_b[2] = nondet_wit(); \
      wit_s[0] = nondet_ulong(); wit_s[1] = nondet_ulong(); wit_s[2] = nondet_ulong(); wit_s[3] = nondet_ulong(); \
      wit_m[0] = nondet_ulong(); wit_m[1] = nondet_ulong(); wit_m[2] = nondet_ulong(); wit_m[3] = nondet_ulong(); \
      wit_alias = nondet_int(); } while (0)
#define WIT_B(n, s) __CPROVER_requires((s)->ulongs_count <= WITN && (s)->ulongs_allocated <= 2 * WITN \
      && wit_b[n].count == (s)->ulongs_count && wit_b[n].alloc == (s)->ulongs_allocated && wit_b[n].inf == (s)->infinite \
      && wit_b[n].w[0] == (s)->ulongs[0] \
      && wit_b[n].w[1] == (s)->ulongs[1 * (1 < (s)->ulongs_count)] \
      && wit_b[n].w[2] == (s)->ulongs[2 * (2 < (s)->ulongs_count)] \
      && wit_b[n].w[3] == (s)->ulongs[3 * (3 < (s)->ulongs_count)])
#define WIT_S(n, e) __CPROVER_requires(wit_s[n] == (unsigned long)(e))
#define WIT_ALIAS(e) __CPROVER_requires(wit_alias == (e))
#define WIT_M(nr, m) __CPROVER_requires((nr) <= WITN && wit_m[0] == (m)[0] && wit_m[1] == (m)[1 * (1 < (nr))] \
      && wit_m[2] == (m)[2 * (2 < (nr))] && wit_m[3] == (m)[3 * (3 < (nr))])
#else
#define VERIF_WIT_HAVOC() ((void)0)
#define WIT_B(n, s)
#define WIT_S(n, e)
#define WIT_ALIAS(e)
#define WIT_M(nr, m)
#endif

#ifndef VERIF_NO_CANARY
#define VERIF_CANARY() __CPROVER_assert(0, "canary")
#else
#define VERIF_CANARY() ((void)0)
#endif

#endif
