/* Common prelude of every verification driver TU (DESIGN.md section 1).
 * Included BEFORE the real /repo source file. */
#ifndef VERIF_PRELUDE_H
#define VERIF_PRELUDE_H

#include <stddef.h>
#include <stdlib.h>
#include <string.h>
#include <errno.h>

/* errno as a plain global: glibc's (*__errno_location()) is a call and is
 * rejected in assigns/ensures clauses. */
#undef errno
int verif_errno;
#define errno verif_errno

/* domain bound on bitmap storage, in words (a bound on the input domain handed
 * to the solver, not on loop iterations) */
#ifndef MAXW
#define MAXW 4096u
#endif

/* Ghost indexes: unconstrained globals that are never assigned.  A property
 * proved with g_k free is proved for every value of g_k (the universal
 * quantifier sits at the outermost level). */
unsigned g_k;      /* ghost word index */
unsigned g_i;      /* ghost bit-in-word index (meaningful when < 64) */
int q_case;       /* ghost selector of the hypothesis in multi-case quantified contracts */
unsigned g_j;      /* ghost array-entry index */
unsigned g_k2;     /* second ghost word index (two-point properties) */
unsigned g_i2;     /* second ghost bit-in-word index */

_Bool nondet_bool(void);
int nondet_int(void);
unsigned nondet_unsigned(void);
unsigned long nondet_ulong(void);
size_t nondet_size_t(void);
char nondet_char(void);

/* Harnesses assign the ghosts from nondet values (so that counterexample traces
 * show them, and so that plain non-DFCC harnesses do not see zero-initialised statics). */
#define VERIF_GHOSTS() do { g_k = nondet_unsigned(); g_i = nondet_unsigned(); g_j = nondet_unsigned(); \
                            g_k2 = nondet_unsigned(); g_i2 = nondet_unsigned(); q_case = nondet_int(); VERIF_WIT_HAVOC(); } while (0)

/* Witness mode (-DVERIF_WITNESS): only used after an obligation has been refuted, to make
 * the verifier's counterexample carry the complete entry state in harness-visible
 * variables.  The contracts then additionally bind (and bound to WITN words) each
 * bitmap argument to wit_b[n] and each scalar to wit_s[n]. */
#define WITN 4
struct verif_wit { unsigned count, alloc; int inf; unsigned long w[WITN]; };
struct verif_wit wit_b[3];
unsigned long wit_s[4];
unsigned long wit_m[WITN];
int wit_alias;
struct verif_wit nondet_wit(void);
#ifdef VERIF_WITNESS
#define VERIF_WIT_HAVOC() do { wit_b[0] = nondet_wit(); wit_b[1] = nondet_wit(); wit_b[2] = nondet_wit(); \
      wit_s[0] = nondet_ulong(); wit_s[1] = nondet_ulong(); wit_s[2] = nondet_ulong(); wit_s[3] = nondet_ulong(); \
      wit_m[0] = nondet_ulong(); wit_m[1] = nondet_ulong(); wit_m[2] = nondet_ulong(); wit_m[3] = nondet_ulong(); \
      wit_alias = nondet_int(); } while (0)
#define WIT_B(n, s) __CPROVER_requires((s)->ulongs_count <= WITN && (s)->ulongs_allocated <= 2 * WITN \
      && wit_b[n].count == (s)->ulongs_count && wit_b[n].alloc == (s)->ulongs_allocated && wit_b[n].inf == (s)->infinite \
      && wit_b[n].w[0] == (s)->ulongs[0] \
      && wit_b[n].w[1] == (s)->ulongs[1 * (1 < (s)->ulongs_count)] \
      && wit_b[n].w[2] == (s)->ulongs[2 * (2 < (s)->ulongs_count)] \
      && wit_b[n].w[3] == (s)->ulongs[3 * (3 < (s)->ulongs_count)])
#define WIT_S(n, e) __CPROVER_requires(wit_s[n] == (unsigned long)(e))
#define WIT_ALIAS(e) __CPROVER_requires(wit_alias == (e))
#define WIT_M(nr, m) __CPROVER_requires((nr) <= WITN && wit_m[0] == (m)[0] && wit_m[1] == (m)[1 * (1 < (nr))] \
      && wit_m[2] == (m)[2 * (2 < (nr))] && wit_m[3] == (m)[3 * (3 < (nr))])
#else
#define VERIF_WIT_HAVOC() ((void)0)
#define WIT_B(n, s)
#define WIT_S(n, e)
#define WIT_ALIAS(e)
#define WIT_M(nr, m)
#endif

/* An arbitrary NUL-terminated string of len <= maxlen (<= 12) non-NUL bytes in an allocation of EXACTLY len+1 bytes, so that
 * a read past the terminating NUL is a refuted pointer check (a fixed-size buffer would hide over-reads of short strings).
 * One constant-size allocation per length: a malloc of symbolic size is far more expensive for the SAT back end. */
static char *verif_exact_string_of(size_t maxlen, size_t want);
static char *verif_exact_string(size_t maxlen) { return verif_exact_string_of(maxlen, (size_t)-1); }
/* want != (size_t)-1: exactly `want` bytes (the caller makes sure want <= maxlen) */
static char *verif_exact_string_of(size_t maxlen, size_t want)
{
  size_t len = nondet_size_t(), i; char *s;
  __CPROVER_assume(len <= maxlen && maxlen <= 12 && (want == (size_t)-1 || len == want));
  /* if-chain guarded by the (constant) maxlen: symbolic execution prunes the allocations a call site cannot use */
  if (len == 0) s = malloc(1);
  else if (maxlen >= 1 && len == 1) s = malloc(2);
  else if (maxlen >= 2 && len == 2) s = malloc(3);
  else if (maxlen >= 3 && len == 3) s = malloc(4);
  else if (maxlen >= 4 && len == 4) s = malloc(5);
  else if (maxlen >= 5 && len == 5) s = malloc(6);
  else if (maxlen >= 6 && len == 6) s = malloc(7);
  else if (maxlen >= 7 && len == 7) s = malloc(8);
  else if (maxlen >= 8 && len == 8) s = malloc(9);
  else if (maxlen >= 9 && len == 9) s = malloc(10);
  else if (maxlen >= 10 && len == 10) s = malloc(11);
  else if (maxlen >= 11 && len == 11) s = malloc(12);
  else if (maxlen >= 12 && len == 12) s = malloc(13);
  else { __CPROVER_assume(0); s = (char *)0; }
  __CPROVER_assume(s != 0);
  for (i = 0; i < len; i++) { s[i] = nondet_char(); __CPROVER_assume(s[i] != 0); }
  s[len] = 0;
  return s;
}

#ifndef VERIF_NO_CANARY
#define VERIF_CANARY() __CPROVER_assert(0, "canary")
#else
#define VERIF_CANARY() ((void)0)
#endif

#endif
